// gv-worker: executes verification jobs against the real cfn-guard library.
//
// Protocol: newline-delimited JSON jobs on stdin; one JSON line per job on the
// protocol fd (argv[1], default 1); before a job starts `{"begin": id}` is
// written and flushed so that a crash (abort, stack overflow, process::exit)
// can be attributed to the job by the orchestrator.
// The FFI front end (guard-ffi/src/{lib,errors,types}.rs) is compiled into this
// binary from /repo's working tree: depending on the crate itself makes cargo
// build its `dylib` flavour with -C prefer-dynamic, which does not link here.
#[allow(dead_code, unused_imports, clippy::all)]
#[path = "/repo/guard-ffi/src/lib.rs"]
mod guard_ffi_src;

use cfn_guard::commands::CfnGuard;
use cfn_guard::utils::reader::{ReadBuffer, Reader};
use cfn_guard::utils::writer::{WriteBuffer, Writer};
use cfn_guard::{run_checks, ValidateInput};
use clap::Parser;
use serde_json::{json, Value};
use std::cell::RefCell;
use std::ffi::{CStr, CString};
use std::io::{BufRead, Cursor, Write};
use std::os::raw::c_char;
use std::panic::{catch_unwind, AssertUnwindSafe};
use std::time::Instant;

thread_local! {
    static LAST_PANIC: RefCell<Option<(String, String)>> = RefCell::new(None);
}

#[repr(C)]
struct FfiIn {
    data: *const c_char,
    file_name: *const c_char,
}

extern "C" {
    fn cfn_guard_run_checks(
        data: FfiIn,
        rules: FfiIn,
        verbose: c_char,
        err: *mut ffi_support::ExternError,
    ) -> *mut c_char;
    fn cfn_guard_free_string(s: *mut c_char);
}

fn s<'a>(j: &'a Value, k: &str) -> &'a str {
    j.get(k).and_then(|v| v.as_str()).unwrap_or("")
}

struct Scratch {
    dir: Option<std::path::PathBuf>,
}

impl Scratch {
    fn setup(job: &Value, base: &std::path::Path, id: &str) -> std::io::Result<Scratch> {
        let files = job.get("files").and_then(|f| f.as_object());
        let dirs = job.get("dirs").and_then(|f| f.as_array());
        if files.is_none() && dirs.is_none() {
            return Ok(Scratch { dir: None });
        }
        let dir = base.join(format!("j{}", id));
        let _ = std::fs::remove_dir_all(&dir);
        std::fs::create_dir_all(&dir)?;
        if let Some(dirs) = dirs {
            for d in dirs {
                if let Some(d) = d.as_str() {
                    std::fs::create_dir_all(dir.join(d))?;
                }
            }
        }
        if let Some(files) = files {
            for (name, content) in files {
                let p = dir.join(name);
                if let Some(parent) = p.parent() {
                    std::fs::create_dir_all(parent)?;
                }
                match content {
                    // "subst_files": true -> "{S}" inside file contents names this job's scratch directory too
                    Value::String(c) if job.get("subst_files").and_then(|v| v.as_bool()).unwrap_or(false) => {
                        std::fs::write(&p, c.replace("{S}", dir.to_str().unwrap_or("")).as_bytes())?
                    }
                    Value::String(c) => std::fs::write(&p, c.as_bytes())?,
                    // {"hex": "..."} for non-UTF-8 content
                    Value::Object(o) => {
                        let h = o.get("hex").and_then(|v| v.as_str()).unwrap_or("");
                        let bytes: Vec<u8> = (0..h.len() / 2)
                            .filter_map(|i| u8::from_str_radix(&h[2 * i..2 * i + 2], 16).ok())
                            .collect();
                        std::fs::write(&p, bytes)?
                    }
                    _ => {}
                }
            }
        }
        // "symlinks": {"link path": "target path"} (both relative to the scratch directory): the link is what the command is given
        if let Some(links) = job.get("symlinks").and_then(|f| f.as_object()) {
            for (name, target) in links {
                let p = dir.join(name);
                if let Some(parent) = p.parent() {
                    std::fs::create_dir_all(parent)?;
                }
                if let Some(t) = target.as_str() {
                    let _ = std::fs::remove_file(&p);
                    std::os::unix::fs::symlink(dir.join(t), &p)?;
                }
            }
        }
        if let Some(mt) = job.get("mtimes").and_then(|f| f.as_object()) {
            for (name, secs) in mt {
                let p = dir.join(name);
                if let (Ok(f), Some(secs)) = (std::fs::File::options().write(true).open(&p), secs.as_u64()) {
                    let t = std::time::UNIX_EPOCH + std::time::Duration::from_secs(secs);
                    let _ = f.set_modified(t);
                }
            }
        }
        Ok(Scratch { dir: Some(dir) })
    }
    fn subst(&self, a: &str) -> String {
        match &self.dir {
            Some(d) => a.replace("{S}", d.to_str().unwrap_or("")),
            None => a.to_string(),
        }
    }
    fn unsubst(&self, a: String) -> String {
        match &self.dir {
            // "/SCRATCH" (not "{S}"): the placeholder must stay a plain scalar inside YAML / JSON / XML output
            Some(d) => a.replace(d.to_str().unwrap_or("\u{0}"), "/SCRATCH"),
            None => a,
        }
    }
    fn collect_outputs(&self, job: &Value) -> Value {
        let mut m = serde_json::Map::new();
        if let (Some(d), Some(outs)) = (&self.dir, job.get("read_back").and_then(|v| v.as_array())) {
            for o in outs {
                if let Some(name) = o.as_str() {
                    match std::fs::read(d.join(name)) {
                        Ok(b) => {
                            m.insert(name.to_string(), json!(String::from_utf8_lossy(&b)));
                        }
                        Err(_) => {
                            m.insert(name.to_string(), Value::Null);
                        }
                    }
                }
            }
        }
        Value::Object(m)
    }
}

impl Drop for Scratch {
    fn drop(&mut self) {
        if let Some(d) = &self.dir {
            let _ = std::fs::remove_dir_all(d);
        }
    }
}

fn run_cli(job: &Value, sc: &Scratch) -> Value {
    let argv: Vec<String> = job
        .get("argv")
        .and_then(|a| a.as_array())
        .map(|a| a.iter().map(|x| sc.subst(x.as_str().unwrap_or(""))).collect())
        .unwrap_or_default();
    let stdin = sc.subst(s(job, "stdin"));
    let mut full = vec!["cfn-guard".to_string()];
    full.extend(argv);
    let parsed = match CfnGuard::try_parse_from(full) {
        Ok(p) => p,
        Err(e) => {
            return json!({"r": "clap", "code": 2, "out": "", "err": e.to_string()});
        }
    };
    let (mut errf, errclone) = match err_file() {
        Some(x) => x,
        None => return json!({"r": "bad", "code": -1, "out": "", "err": "no err file"}),
    };
    let mut writer = Writer::new_with_err(WriteBuffer::Vec(vec![]), WriteBuffer::File(errclone))
        .expect("writer");
    let mut reader = Reader::new(ReadBuffer::Cursor(Cursor::new(stdin.into_bytes())));
    let res = parsed.execute(&mut writer, &mut reader);
    let (code, r, emsg) = match &res {
        Ok(c) => (*c, "ok", String::new()),
        Err(e) => (255, "err", e.to_string()),
    };
    let out = writer.into_string().unwrap_or_else(|e| format!("<<non-utf8 output: {}>>", e));
    let mut err = String::new();
    {
        use std::io::{Read, Seek, SeekFrom};
        let _ = errf.seek(SeekFrom::Start(0));
        let mut b = Vec::new();
        let _ = errf.read_to_end(&mut b);
        err.push_str(&String::from_utf8_lossy(&b));
    }
    json!({"r": r, "code": code, "out": sc.unsubst(out), "err": sc.unsubst(err), "emsg": sc.unsubst(emsg)})
}

thread_local! {
    static ERR_PATH: RefCell<Option<std::path::PathBuf>> = RefCell::new(None);
}

fn err_file() -> Option<(std::fs::File, std::fs::File)> {
    let p = ERR_PATH.with(|p| p.borrow().clone())?;
    let f = std::fs::File::options()
        .read(true)
        .write(true)
        .create(true)
        .truncate(true)
        .open(p)
        .ok()?;
    let c = f.try_clone().ok()?;
    Some((f, c))
}

fn run_ffi(job: &Value) -> Value {
    let data = CString::new(s(job, "data").replace('\0', "")).unwrap();
    let rules = CString::new(s(job, "rules").replace('\0', "")).unwrap();
    let dn = CString::new(if s(job, "data_name").is_empty() { "data" } else { s(job, "data_name") }).unwrap();
    let rn = CString::new(if s(job, "rules_name").is_empty() { "rules" } else { s(job, "rules_name") }).unwrap();
    let verbose = job.get("verbose").and_then(|v| v.as_bool()).unwrap_or(false);
    let mut err = ffi_support::ExternError::success();
    unsafe {
        let p = cfn_guard_run_checks(
            FfiIn { data: data.as_ptr(), file_name: dn.as_ptr() },
            FfiIn { data: rules.as_ptr(), file_name: rn.as_ptr() },
            if verbose { 1 } else { 0 },
            &mut err,
        );
        let code = err.get_code().code();
        if code == 0 {
            let out = if p.is_null() { String::new() } else { CStr::from_ptr(p).to_string_lossy().into_owned() };
            if !p.is_null() {
                cfn_guard_free_string(p);
            }
            json!({"r": "ok", "code": 0, "out": out, "err": ""})
        } else {
            let m = err.get_raw_message() as *mut c_char;
            let msg = if m.is_null() { String::new() } else { CStr::from_ptr(m).to_string_lossy().into_owned() };
            if !m.is_null() {
                cfn_guard_free_string(m);
            }
            if !p.is_null() {
                cfn_guard_free_string(p);
            }
            json!({"r": "err", "code": code, "out": "", "err": msg})
        }
    }
}

fn run_job(job: &Value, sc: &Scratch) -> Value {
    match s(job, "k") {
        "rc" => {
            let dn = if s(job, "data_name").is_empty() { "data" } else { s(job, "data_name") };
            let rn = if s(job, "rules_name").is_empty() { "rules" } else { s(job, "rules_name") };
            let verbose = job.get("verbose").and_then(|v| v.as_bool()).unwrap_or(false);
            match run_checks(
                ValidateInput { content: s(job, "data"), file_name: dn },
                ValidateInput { content: s(job, "rules"), file_name: rn },
                verbose,
            ) {
                Ok(o) => json!({"r": "ok", "code": 0, "out": o, "err": ""}),
                Err(e) => json!({"r": "err", "code": 255, "out": "", "err": e.to_string()}),
            }
        }
        "cli" => run_cli(job, sc),
        "ffi" => run_ffi(job),
        "load" => {
            let r = match s(job, "which") {
                "validate" => cfn_guard::verif::load_validate(s(job, "text")),
                _ => cfn_guard::verif::load_serde(s(job, "text")),
            };
            match r {
                Ok(o) => json!({"r": "ok", "code": 0, "out": o, "err": ""}),
                Err(e) => json!({"r": "err", "code": 255, "out": "", "err": e}),
            }
        }
        "ping" => json!({"r": "ok", "code": 0, "out": "pong", "err": ""}),
        other => json!({"r": "bad", "code": -1, "out": "", "err": format!("unknown job kind {}", other)}),
    }
}

fn main() {
    use std::os::unix::io::FromRawFd;
    let args: Vec<String> = std::env::args().collect();
    let fd: i32 = args.get(1).and_then(|a| a.parse().ok()).unwrap_or(1);
    let scratch_base = args
        .get(2)
        .map(std::path::PathBuf::from)
        .unwrap_or_else(|| std::path::PathBuf::from("/verif/target/scratch"))
        .join(format!("w{}", std::process::id()));
    let _ = std::fs::create_dir_all(&scratch_base);
    ERR_PATH.with(|p| *p.borrow_mut() = Some(scratch_base.join("stderr.txt")));
    let mut proto: Box<dyn Write> = if fd == 1 {
        Box::new(std::io::stdout())
    } else {
        Box::new(unsafe { std::fs::File::from_raw_fd(fd) })
    };

    std::panic::set_hook(Box::new(|info| {
        let msg = if let Some(s) = info.payload().downcast_ref::<&str>() {
            s.to_string()
        } else if let Some(s) = info.payload().downcast_ref::<String>() {
            s.clone()
        } else {
            "<non-string panic>".to_string()
        };
        let loc = info
            .location()
            .map(|l| format!("{}:{}", l.file(), l.line()))
            .unwrap_or_default();
        LAST_PANIC.with(|p| *p.borrow_mut() = Some((msg, loc)));
    }));

    let stdin = std::io::stdin();
    for line in stdin.lock().lines() {
        let line = match line {
            Ok(l) => l,
            Err(_) => break,
        };
        if line.trim().is_empty() {
            continue;
        }
        let job: Value = match serde_json::from_str(&line) {
            Ok(j) => j,
            Err(e) => {
                let _ = writeln!(proto, "{}", json!({"id": null, "r": "bad", "err": e.to_string()}));
                let _ = proto.flush();
                continue;
            }
        };
        let id = job.get("id").cloned().unwrap_or(Value::Null);
        let _ = writeln!(proto, "{}", json!({"begin": id}));
        let _ = proto.flush();
        let idstr = match &id {
            Value::String(s) => s.replace('/', "_"),
            other => other.to_string(),
        };
        let want_events = job.get("events").and_then(|v| v.as_bool()).unwrap_or(false);
        let reps = job.get("repeat").and_then(|v| v.as_u64()).unwrap_or(1).max(1);
        let t0 = Instant::now();
        let mut results: Vec<Value> = Vec::new();
        for _ in 0..reps {
            let sc = match Scratch::setup(&job, &scratch_base, &idstr) {
                Ok(s) => s,
                Err(e) => {
                    results.push(json!({"r": "bad", "code": -1, "out": "", "err": format!("scratch: {}", e)}));
                    break;
                }
            };
            if want_events {
                cfn_guard::verif::enable();
            }
            LAST_PANIC.with(|p| *p.borrow_mut() = None);
            let r = catch_unwind(AssertUnwindSafe(|| run_job(&job, &sc)));
            let events = if want_events { cfn_guard::verif::drain() } else { vec![] };
            let mut res = match r {
                Ok(v) => v,
                Err(_) => {
                    let (msg, loc) = LAST_PANIC
                        .with(|p| p.borrow_mut().take())
                        .unwrap_or_default();
                    json!({"r": "panic", "code": 101, "out": "", "err": msg, "loc": loc})
                }
            };
            if want_events {
                res["events"] = json!(events);
            }
            let fo = sc.collect_outputs(&job);
            if fo.as_object().map_or(false, |m| !m.is_empty()) {
                res["files"] = fo;
            }
            results.push(res);
        }
        let us = t0.elapsed().as_micros() as u64;
        let mut res = results.remove(0);
        if !results.is_empty() {
            res["more"] = Value::Array(results);
        }
        res["id"] = id;
        res["us"] = json!(us);
        let _ = writeln!(proto, "{}", res);
        let _ = proto.flush();
    }
    let _ = std::fs::remove_dir_all(&scratch_base);
}
