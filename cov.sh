#!/bin/bash
# usage: ./cov.sh [checks...]   - which lines of /repo/guard/src do the quick workloads of the monitors execute?
# Builds a coverage-instrumented worker with the nightly toolchain (vendored sources, see gvlib/vendor.py), runs the quick tier of
# the given checks (default: all) on it, and writes target/cov/report.txt (per-file summary) and target/cov/uncovered.txt
# (functions never executed). A diagnostic for workload design, not a registered check; evidence files are restored afterwards.
set -u
cd /verif
checks=${@:-C01 C02 C03 C04 C05 C06 C07 C08 C09 C10 C11 C12 C13 C14 C15 C16 C17 C18 C19}
[ -d /verif/vendor ] || python3 -m gvlib.vendor
T=/verif/target/cov
TOOLS=$(dirname $(rustup +nightly which rustc))/../lib/rustlib/x86_64-unknown-linux-gnu/bin
( cd harness && LLVM_PROFILE_FILE=/dev/null CARGO_NET_OFFLINE=true CARGO_TARGET_DIR=$T RUSTFLAGS="-Cinstrument-coverage -A dangerous_implicit_autorefs -A warnings" \
  cargo +nightly build --release --offline --config 'source.crates-io.replace-with="gvvendor"' --config 'source.gvvendor.directory="/verif/vendor"' 2>&1 | tail -1 )
( cd /repo && LLVM_PROFILE_FILE=/dev/null CARGO_NET_OFFLINE=true CARGO_TARGET_DIR=$T/cli RUSTFLAGS="-Cinstrument-coverage -A dangerous_implicit_autorefs -A warnings" \
  cargo +nightly build --release --offline -p cfn-guard --bin cfn-guard --config 'source.crates-io.replace-with="gvvendor"' --config 'source.gvvendor.directory="/verif/vendor"' 2>&1 | tail -1 )
rm -rf $T/prof; mkdir -p $T/prof
for c in $checks; do
  GV_WORKER_BIN=$T/release/gv-worker GV_CLI_BIN=$T/cli/release/cfn-guard LLVM_PROFILE_FILE=$T/prof/$c-%p-%8m.profraw ./gv check $c --tier quick 2>&1 | grep -E "^C[0-9]+ " | cut -c1-120
done
git checkout -- evidence 2>/dev/null
find $T/prof -name "*.profraw" -size +0 > $T/prof.list      # tens of thousands of files: a glob would exceed the argument limit
$TOOLS/llvm-profdata merge -sparse -f $T/prof.list -o $T/all.profdata --num-threads=8
$TOOLS/llvm-cov report $T/release/gv-worker -object $T/cli/release/cfn-guard -instr-profile=$T/all.profdata -ignore-filename-regex='(registry|vendor|rustc|harness|_tests?\.rs|tests/)' > $T/report.txt
$TOOLS/llvm-cov show $T/release/gv-worker -object $T/cli/release/cfn-guard -instr-profile=$T/all.profdata -ignore-filename-regex='(registry|vendor|rustc|harness|_tests?\.rs|tests/)' -show-line-counts-or-regions=false -Xdemangler=rustfilt 2>/dev/null > $T/show.txt || \
$TOOLS/llvm-cov show $T/release/gv-worker -object $T/cli/release/cfn-guard -instr-profile=$T/all.profdata -ignore-filename-regex='(registry|vendor|rustc|harness|_tests?\.rs|tests/)' > $T/show.txt
tail -n 40 $T/report.txt | cut -c1-200
