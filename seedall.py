#!/usr/bin/env python3
"""Run seeded breaks against the checks.

  ./seedall.py own            each seed against the quick check of its own property (in /repo, patch applied and undone)
  ./seedall.py matrix DIR     every seed x every quick check, on a scratch clone DIR of /repo (GV_REPO), e.g. under `vp run --with-repo`
Writes /verif/seeded/<id>/meta.json (own) or prints the matrix as JSON (matrix)."""
import json
import os
import subprocess
import sys

V = os.path.dirname(os.path.abspath(__file__))
PROPS = ["C%02d" % i for i in range(1, 20)]
NEEDS = {
    "C01": "an `or` line whose alternatives mix SKIP (empty filter) and FAIL with no PASS: the line must be FAIL, the patch makes it SKIP",
    "C02": "an `or` line with a FAIL before its PASS followed, in the same block, by a line that SKIPs and no line that fails on its own (stale per-line counter)",
    "C03": "prefix not on `>=` with a value exactly equal to the right-hand side (complement table maps Ge to Le)",
    "C04": "same stale-counter change as C02: verdict depends on the order of alternatives / lines",
    "C05": "validate --structured -o sarif with >= 2 non-compliant data files, compared across processes (artifacts in HashSet order)",
    "C06": "validate --structured -o junit with >= 2 data files where a FAIL is followed by a non-failing file (total_failures = instead of +=)",
    "C07": "--structured -o sarif plus a failing check without source location (unresolved block, failed rule reference): result dropped",
    "C08": "`X IN []` with a list-valued X: index [0] into the empty right-hand list panics",
    "C09": "a FAIL rule whose record subtree yields no reportable check (`!empty` block over an empty selection) vanishes from not_compliant",
    "C10": "a failing check whose value is a scalar held directly by a list: its line/column is the list's, not the scalar's",
    "C11": "an unquoted float written with an exponent (1e3) loaded by `validate` becomes a string; test / run_checks still see a float",
    "C12": "plain-mode validate with >= 2 data files and a rule referenced by name: the rule-status memo survives from one data file to the next",
    "C13": "two integers >= 2^53 that differ by less than the f64 spacing compare equal (compared through f64)",
    "C14": "a `#` comment between `[` and `keys` in a map-key filter turns it into an ordinary filter on a key named `keys` (no parse error)",
    "C15": "a file-level `let v = some <query>` referenced at least twice: later references see the unfiltered (unresolved) members",
    "C16": "a rule name defined twice, SKIP expected, a non-last definition not SKIP while the last one is SKIP: expectation reported as met",
    "C17": "a merge step whose right-hand side has more top-level keys than everything merged so far, and a rule iterating the merged root (`this.*` / keys)",
    "C18": "join() over a collection whose first element(s) are the empty string: the delimiter after them is dropped",
    "C19": "a string property containing a backslash, tab or control character: rendered with JSON escaping, the generated clause no longer matches",
    "C01-2": "same change as C15 (three independent agents converged on it): memo of a file-level `let v = some <query>` stores the unfiltered result; needs >= 2 references",
    "C02-2": "a parameterised rule called with a custom message (`p(args) <<m>>`) whose outcome is not PASS: its RuleCheck record is rebuilt with NamedStatus::default() (status PASS)",
    "C03-2": "prefix not/! on `empty` applied to a bare variable or a filter-ending query whose selection contains an unresolved entry",
    "C04-2": "same change as C15 / C01-2 (file-level `some` memo): verdict depends on which clause or rule touches the variable first",
    "C05-2": "parse_epoch() on a timestamp without zone designator (accepted by the patch and anchored in the local zone) and two runs whose TZ differs",
    "C06-2": "`test --dir -o json|yaml|junit` on a directory with >= 2 rules files where a file with a mismatching expectation is followed by one whose expectations all match (exit code reset to 0)",
    "C07-2": "`validate --payload` in non-structured mode with >= 2 rules entries where a failing entry is followed by a passing one (exit code overwritten)",
    "C08-2": "a rule name defined more than once whose first definition SKIPs and whose later definition closes a reference cycle (in-progress guard popped once per definition): stack overflow",
    "C09-2": "a parameterised rule called with a custom message whose body calls another parameterised rule without message: the inner record/report entry gets the outer message",
    "C10-2": "a data file (or stdin) that begins with blank lines / leading whitespace: every reported line/column is relative to the trimmed text; or a document ending in a literal block scalar",
    "C11-2": "a YAML document using the `!Condition x` short form: loaded as {Fn::Condition: x} instead of {Condition: x} by every loader",
    "C12-2": "`validate --structured -o junit` with >= 2 data files and a failing file that is not the last: later <testsuite> headers carry the failures of earlier files",
    "C13-2": "`X in r(a,b]` with X exactly equal to b (upper-inclusive-only range evaluated as the open range)",
    "C14-2": "the `|OR|` spelling on the same line directly after a bare rule reference without custom message: parse error",
    "C15-2": "a literal bound by `let` at rule/when/block level (not file level) used where literal-vs-query matters: `some q == %v`, list-valued LHS vs scalar, scalar vs one-element list literal",
    "C16-2": "`test --dir -o json|yaml|junit` on a rules file with file-level clauses (default rule): the rule is named `<path>/default` instead of `<stem>/default`, expectations land under skipped",
    "C17-2": "two parameter files with the same base name in different directories (`-i envA/params.json -i envB/params.json`): the second is silently dropped",
    "C18-2": "parse_int() on a string that is no i64 but parses as a float (\"3.7\", \"nan\", \"1e400\", \"9223372036854775808\"): a value instead of an error",
    "C19-2": "a top-level float property with zero fraction (75.0, 1.0E+2): emitted as the integer literal 75, which is not comparable with the template's float",
    "C01-3": "a map literal on the right of ==/!= (inline or via let) compared with a document map that is a strict subset of it (length check dropped from compare_eq)",
    "C02-3": "a type block carrying its own `when` whose condition FAILs (not SKIPs): the block is recorded SKIP but FAIL is returned to the rule",
    "C04-3": "a rule name defined twice where the first definition SKIPs and a later one applies, referenced by name at least twice (rule-status memo keeps the first definition's status)",
    "C05-3": "`validate --structured -o junit` with >= 2 data files: a later <testsuite> carries the failures of the files evaluated before it (same change class as C12-2; same bytes on repetition)",
    "C06-3": "`validate --structured -o json|yaml|sarif` with an evaluation error in one (rules, data) pair followed by a FAIL in a later pair: exit 19 instead of an error exit",
    "C09-3": "structured report over >= 2 rules files whose first file(s) have only SKIP rules for the data file: their names vanish from not_applicable (FileReport::combine fast path)",
    "C12-3": "`validate --structured` with --input-parameters and >= 2 data files: the parameters are merged into the first data file only",
    "C16-3": "`test -o junit` with a rule that has no expectation: counted in the failures attribute of <testsuite>/<testsuites> although no <failure> element exists",
    "C17-3": "`-i <directory>` containing a non-data file (notes.txt, .DS_Store) that sorts before a parameter file: the walk stops there and later parameter files are never merged",
    "C19-3": "two resources of one type setting the same property to the same text with different types (50 and \"50\"): one spelling is lost, the generated rule FAILs on its template",
    "C03-3": "`not p(args)` for a parameterised rule whose body evaluates to SKIP for those arguments (inversion keyed on FAIL instead of on not-PASS)",
    "C07-3": "same change as C12-3 (`--structured` merges --input-parameters into the first data file only): console and structured outputs disagree for later data files",
    "C08-3": "a YAML data file with a `!`-tagged sequence whose tag is not a known short form (`!Cidr [..]`, `!MyMacro` + block list): short_form_to_long reaches unreachable!()",
    "C10-3": "an unresolved variable-interpolated key (`Resources.%name.Type` with a name that is no key): traversed_to is the variable's own value instead of the map searched",
    "C11-3": "inside a list, a one-key map with an explicit null value directly followed by a list sibling: `validate` loads [{k: null}, [a, b]] as [{k: [a, b]}]",
    "C13-3": "two equal maps whose keys are written in a different order, compared through `in [map literals]` or query == query (derived PartialEq also compares the key vector)",
    "C14-3": "a single-quoted string literal containing an escaped single quote ('it\\'s'): the escape is replaced by a double quote",
    "C15-3": "a variable interpolated as the last part of a longer query (`Properties.%k`) with `empty`/`!empty` and an empty list/map/string value: treated like the bare-variable exception",
    "C18-3": "a function argument resolving to several values where a skipped one (non-string in a mixed list, unresolved member) precedes others: results after it are dropped (map_while)",
    "C01-4": "a nested `when` block (not a rule-level guard) whose condition evaluates to SKIP (all its lines depend on empty filtered selections): the body is evaluated as if the condition had passed",
    "C02-4": "same change as C01-4 (`when` block with a SKIP condition evaluates its body): the record shows WhenCondition SKIP next to an evaluated body",
    "C03-4": "prefix not together with an operator-level negation on a unary operator (`not X !exists`, `not X !is_string`, `!X !empty`): the two negations no longer cancel",
    "C04-4": "inside a query block, an `or` line with one alternative that raises an evaluation error for an element (`empty` on a number) and one that PASSes: the error is swallowed as FAIL, so the order of alternatives decides",
    "C05-4": "`test -o junit` with an unmet expectation while colouring is on (CLICOLOR_FORCE=1 or stdout a terminal): ANSI codes in the <failure> text",
    "C06-4": "`test` with a PASS or FAIL expectation for a rule whose every definition is SKIP: counted as met, exit 0 instead of 7",
    "C07-4": "`--structured -o junit` with `<` or `&` in a custom message or in a data string of a failing comparison: failure text written unescaped, XML not well-formed",
    "C08-4": "`validate --structured -o junit` on a rules file with the `.ruleset` extension whose file-level (default) rule FAILs: index out of bounds in the JUnit reporter",
    "C09-4": "a rule referenced by name from a rule defined before it: the top-level loop takes the cached status and records nothing, the rule is in none of the three lists",
    "C10-4": "a YAML block scalar (|- / >-) whose single line looks like a number, boolean or null: loaded as Int/Bool/Null, the reported value is not the document's string",
    "C11-4": "block YAML loaded by `validate` whose last node is a `|` / `>` block scalar (final line feed trimmed away) or whose every line is indented (parse error)",
    "C12-4": "`--structured -o json|yaml` with two rules files defining a same-named rule that is SKIP for one and PASS/FAIL for the other on a data file: the SKIP entry vanishes from not_applicable",
    "C13-4": "`<=` / `>=` on equal operands of an unordered type (bool, map, string vs regex, number vs range): PASS instead of not comparable",
    "C14-4": "a type block over >= 2 resources of its type where the body is SKIP for one and PASS for another: the type block says SKIP, the written-out filter form PASS",
    "C15-4": "more than 64 evaluations of parameterised calls in one process (leaked nesting-depth counter; re-based, see REBASED.md)",
    "C16-4": "plain `test` with several test-data files for one rules file (-t <dir> or --dir) where a file with an unmet expectation is followed by one without: exit 0 while json/yaml/junit exit 7",
    "C17-4": "same change as C12-3 / C07-3 (structured mode merges --input-parameters into the first data file only)",
    "C18-4": "url_decode() with a string literal argument (in place or via a literal-bound variable): treated as an unsupported value and skipped",
    "C19-4": "`rulegen -t T -o F` when F already exists and is longer than the new rules: the file is not truncated, stale text follows the rules",
    "C01-5": "a range literal written `r(lo, hi]` and a value exactly on one of the bounds (parsed as `r[lo, hi)`)",
    "C02-5": "a `some` query block that selects values and whose body is SKIP for every one of them: FAIL instead of SKIP",
    "C03-5": "prefix not/NOT/! in front of `is_null` or `is_float` (single negation) on a value that resolves: ignored",
    "C04-5": "a `when` guard of >= 2 lines whose last line evaluates to SKIP (binary comparison on an empty selection) after a passing line: guard status = last line",
    "C05-5": "`parse-tree -o F` / `rulegen -o F` when F already holds longer content: not truncated, so the bytes depend on an earlier run",
    "C06-5": "`test -r R -t <dir>` with the mismatching (or malformed) test file in a sub-directory of <dir>: silently skipped, exit 0",
    "C07-5": "`--structured` with two rules files that share a base name in different directories (a/policy.guard, b/policy.guard): the second is skipped; console and payload still evaluate it",
    "C08-5": "a float NaN in the document (YAML `nan` / `.nan`, `NaN` token in a .json file read by validate, parse_float(\"NaN\")) compared with another float: expect() panics",
    "C09-5": "same change class as C07-5, seeded in StructuredEvaluator::evaluate: rules files with equal base names are taken for one file, the combined report is not the union",
    "C10-5": "a filter on a list of lists directly followed by an unnamed `[*]` and a further part: the `[*]` is skipped, unresolved points are reported one level too high",
    "C11-5": "`!Sub [..]` / `!GetAtt [a, b]` (list form of the two tags that accept both shapes) in a document loaded by the test command / library: not expanded",
    "C12-5": "`validate --payload` (plain) with a failing rules entry followed by a passing one: exit code = status of the last entry",
    "C13-5": "`X in [..]` with a list mixing types where a differently typed element precedes the equal one (or anywhere for `not in`): NotComparable aborts the membership test",
    "C14-5": "file-level clauses joined by `or` (outside any rule, not type blocks): each alternative becomes its own conjunct of the default rule",
    "C15-5": "a parameterised call with >= 2 query arguments whose earlier argument is written `some <query>`: later arguments lose their unresolved entries",
    "C16-5": "a YAML test input using the short form `!Condition x`: `test` expands it to Fn::Condition, validate to Condition",
    "C17-5": "plain output, >= 2 data files, a top-level key conflict between the parameters and one data file: that file is skipped with a warning, exit 0",
    "C18-5": "parse_boolean() on a boolean word in mixed capitalisation (tRuE, fAlSe): error instead of the documented case-insensitive conversion",
    "C19-5": "a resource type containing a character outside [A-Za-z0-9:_] (Custom::Log-Forwarder): the emitted rule selects the sanitised type name and SKIPs",
    "C01-6": "prefix not on `empty` / `!empty` over a filter-terminated or bare-variable query that selects nothing: the flip is dropped",
    "C02-6": "plain validate over several data files: a FAIL file followed by a file whose rules all SKIP resets the exit code to 0",
    "C03-6": "negated `in` (prefix not or `not in`) with a query-valued right-hand side that has at least as many values as the left and does not contain it: FAIL instead of PASS",
    "C04-6": "a filter on a map with >= 2 lines whose first line SKIPs for an entry another line accepts: the entry is rejected, so the order of filter lines decides",
    "C05-6": "a key filter whose comparator is `in` (`keys in [..]`, `keys == %multi`) over >= 2 keys in a failing rule: results grouped through a HashMap, output order varies between runs",
    "C06-6": "plain `test` with an unmet expectation while colouring is on (CLICOLOR_FORCE=1 / terminal): coloured map key, exit 0 instead of 7",
    "C07-6": "`--structured -o json|yaml` for a data file on which every rule of every rules file is SKIP: file status PASS (fold starts from Status::default() = PASS)",
    "C08-6": "`test -o json|yaml|junit` with an unparsable test file processed before a well-formed one for the same rules file: unreachable!() in the structured reporter",
    "C09-6": "a failed binary clause whose right-hand side is a query with an unresolved entry: custom message and generated explanation swapped in the report",
    "C10-6": "a JSON data file the YAML loader rejects (surrogate-pair escape, very long key) read through a position-less serde fallback: every reported position is L:0,C:0",
    "C11-6": "a YAML mapping whose key is a short-form tagged string (`!Ref x: 1`) loaded by test / library: accepted as the plain string key",
    "C12-6": "two data files with the same base name in different directories in one validate run: the second is dropped",
    "C13-6": "a float negative zero (-0.0 in the data) compared with 0.0: ordered by total_cmp, so -0.0 < 0.0 and not equal",
    "C14-6": "an explicit `this.` as first part of a clause inside a filter on a list or on a map reached through a key: resolved against the enclosing value",
    "C15-6": "a type block containing a `let` bound to a resource-relative query or function call, >= 2 resources of that type with different values: the first resource's value is memoised",
    "C16-6": "a JSON tests file with a surrogate-pair escape and `test -o json|yaml|junit`: the structured reporter lost its JSON fallback and reports an error",
    "C17-6": "the same top-level key in two sources where both values are maps with disjoint inner keys: merged recursively instead of being refused",
    "C18-6": "to_upper / to_lower on a string with cased non-ASCII letters (é, Ü): only ASCII letters change case",
    "C19-6": "a negative non-integer property (Threshold: -1.5): the emitted literal parses but loses its sign",
    "C01-7": "a negated `in` (not in / !in / prefix not) whose left side is a whole list value partially overlapping the right-hand list: FAIL becomes PASS",
    "C02-7": "a rule name defined twice, the first definition PASS and a later one SKIP, referenced by name from another rule: the reference is FAIL",
    "C03-7": "a prefix not/NOT/! on a binary clause whose right-hand side is an inline function call (x == to_upper(..)): the negation is ignored",
    "C04-7": "a rule referenced by name from a rule defined EARLIER in the file: its top-level record is missing, so reports and `test` lose the rule",
    "C05-7": "rulegen on a template where one property of one type has values equal up to letter case (Private/private/PRIVATE): their order varies per run",
    "C06-7": "validate with `--rules <file> --rules <directory>`: the file given before the directory is dropped (exit 0 instead of 19 / 5)",
    "C07-7": "structured JUnit output with several data files, a failing one before a compliant one: the later <testsuite> carries cumulative failures=",
    "C08-7": "default console output on a template whose failing value sits on one of the first three lines, reported after another failure: panic in seek_line",
    "C09-7": "--structured json/yaml for a data file on which every rule SKIPs: file status PASS with compliant empty",
    "C10-7": "a data mapping that repeats a key: the first occurrence wins (value, subtree and position) instead of the last",
    "C11-7": "a YAML block scalar with strip chomping whose content looks like a number / bool / null (|-\n 8080): typed by validate",
    "C12-7": "more than 64 passing negated parameterised-rule calls accumulated over the pairs of one run: the nesting-depth counter leaks, later pairs error",
    "C13-7": "`==` between lists of different lengths where the shorter is a prefix of the longer (incl. `== []`): holds",
    "C14-7": "`not`/`NOT` followed by two or more blanks or a tab: the rules file is rejected",
    "C15-7": "a variable holding a LIST of key names used as `x.%keys` where one key is absent: the unresolved entry is dropped, FAIL becomes PASS",
    "C16-7": "`test` with -o json|yaml|junit, a rule referencing another named rule, two or more cases: the referenced status is the one of an earlier case",
    "C17-7": "`validate --payload -i params`: the parameter files are ignored altogether",
    "C18-7": "count(q) where the first result of q is unresolved and later ones resolve: 0",
    "C19-7": "a YAML template with short-form tags (a tag on a mapping node, !Join \"x\", !Ref 123): rulegen emits rules its own template FAILs",
    "C01-8": "a binary clause whose right-hand side is a query (or query-bound variable) that selects nothing while the left side selects something: compared instead of SKIP",
    "C02-8": "`not p(args)` where the called parameterised rule evaluates to SKIP: FAIL instead of PASS",
    "C03-8": "a prefix not/NOT/! on a clause quantified with `some`: negated twice, i.e. ignored",
    "C04-8": "a map with two case-variant spellings of one key addressed in a third spelling, after a lookup that only a later case converter satisfies: the converter order follows the earlier lookup",
    "C05-8": "validate on a data directory without -a/-m whose files were saved in another order: file order (and every structured output) follows the modification times",
    "C06-8": "validate --payload with a blank or unparsable entry in the data array: the entry is dropped, exit 0 / 19 instead of an error",
    "C07-8": "non-structured validate with --print-json and a failing data file: exit 0",
    "C08-8": "a quoted key that starts with `%` followed by something that is no variable name (\"% used\", '%'): panic",
    "C09-8": "a failing `in` / `==` between two queries with partial matches: the values that DO match are listed as failed checks too",
    "C10-8": "a data mapping with an empty-string key whose value is a map or list: descendants are reported under /a/x instead of /a//x",
    "C11-8": "a string with an embedded NUL (\"ab\\u0000cd\") loaded by validate: cut at the NUL",
    "C12-8": "an empty or blank rules file listed (or walked) before other rules files: the later rules files are silently dropped",
    "C13-8": "a regular expression bound to a variable and written on the LEFT of == / != (%re == name): string and pattern swap roles",
    "C14-8": "a file-level `when .. { }` block whose body names a rule on a line of its own: rejected by the parser",
    "C15-8": "a parameterised rule called with an argument query that selects nothing: the parameter falls through to a same-named variable of the caller (or cannot be resolved)",
    "C16-8": "a rule name defined twice with another rule between the definitions: `test` only looks at the last run of definitions",
    "C17-8": "a parameter file that is a symbolic link to a regular file: skipped silently",
    "C18-8": "parse_char of an integer k*2^32 + d (d a digit): the digit instead of an error",
    "C19-8": "two resources of one type whose logical ids are not adjacent in sorted order (another type sorts between them): only the last run's values reach the rule",
    "C01-9": "`<=` where a compared pair is exactly equal: evaluated as `<`",
    "C02-9": "a type block selecting two resources whose bodies come out PASS and SKIP (no FAIL): the block is SKIP instead of PASS",
    "C03-9": "prefix not/NOT/! on a binary clause whose left-hand property is absent from the data: PASS, the operator-level negation FAILs",
    "C04-9": "rules that reference each other in a cycle with an asymmetric edge (`not`, `or`): the cycle is cut to SKIP where the evaluator enters it, statuses follow the rule order",
    "C05-9": "`test` with two or more differently misspelt expectations in one case: the reported one follows the hash order",
    "C06-9": "plain `test` with several test files of one rules file, a mismatching file processed before an all-matching one: exit 0",
    "C07-9": "a rule name defined twice, both definitions applying with different outcomes: the --show-summary table lists only the first outcome",
    "C08-9": "a `keys` filter on an empty map, or against a variable whose query selects nothing: panic (unreachable)",
    "C09-9": "an `or` line that passes through a later alternative, inside a rule that fails for another reason: the failed alternative is listed as a failed check",
    "C10-9": "a query spelled in another case convention than the document whose rest does not resolve: the report stops at the map where the convention was chosen",
    "C11-9": "a flow-style YAML document (opens with { or [, not valid JSON) given to the library API: refused",
    "C12-9": "SARIF for several data files with the same violation (rule, message, position): the later file's finding is dropped",
    "C13-9": "`X not in <query>` where X equals none of the selected values and the query selects at least as many values as X: FAIL",
    "C14-9": "a type block with conditions written `WHEN` (upper case): parsed as a when-block inside the type block, conditions evaluated per resource",
    "C15-9": "a `keys` filter whose right-hand side is a variable bound to a literal (string, list, regex): selects nothing",
    "C16-9": "`test` -o json|yaml|junit with partial expectations where a rule without expectation is defined before one with: later rules vanish, exit 0",
    "C17-9": "an -i argument that contributes no parameter file (notes directory, other file kind) after one that does: the earlier parameters are dropped",
    "C18-9": "substring(s, i, j) with i < len(s) < j: the tail instead of skipping the string",
    "C19-9": "a string property whose value is the empty string: no clause (and no rule if it is the only property)",
    "C01-10": "a `some <query> { .. }` block whose body is SKIP for every selected value: FAIL instead of SKIP",
    "C02-10": "non-structured validate over several data files for one rules file, a rule referenced by name whose status differs between the documents: the reference sees the status of an earlier document",
    "C03-10": "a singly negated == / in whose right-hand side is a query that selects nothing (left side selects something): PASS instead of SKIP",
    "C04-10": "three nested parameterised rules, the middle one called twice from the outer one on the same value with different arguments: the second call gets the first call's status",
    "C05-10": "more than 64 passing `not p(x)` calls accumulated in one process (several data files): later pairs fail with the nesting-depth error",
    "C06-10": "non-structured validate with --print-json and a FAIL evaluation: exit 0",
    "C07-10": "--structured -o junit on rules whose evaluation ends in an error: exit 5 with an <error> case, every other rendering exits 255",
    "C08-10": "a rules file with a syntax error followed by more than 120 bytes where byte 120 falls inside a multi-byte character: panic while formatting the parse error",
    "C09-10": "`not %x empty` (prefix form, on a variable or a filter-terminated query) over values of which some pass: the passing values are recorded and listed as failed",
    "C10-10": "default console output on a CloudFormation template, a failing comparison whose left side lies outside Resources and whose right side inside: PropertyPath of the right side next to the value of the left",
    "C11-10": "a map entry whose value is an empty string (any syntax) loaded by validate: null",
    "C12-10": "a document with two competing spellings of a key evaluated after a document with one spelling, rule key in a third spelling: the converter preferred last time wins",
    "C13-10": "null compared through equality of values (null in a list literal, query == query, maps/lists containing null): not equal to itself",
    "C14-10": "a filter whose first clause starts with a quoted key directly after `[` (no blank): rejected by the parser",
    "C15-10": "a `let x` inside a `when` block inside a rule whose guard reads an outer %x: the guard sees the inner binding",
    "C16-10": "`test -o junit` with an unmet expectation: the <failure> text has expected and evaluated swapped",
    "C17-10": "non-structured run with -i and a rules file that never spells a parameter key literally (walks this.* / keys, or another case convention): the parameters are not merged",
    "C18-10": "parse_epoch of a timestamp with a non-zero UTC offset: the offset is ignored",
    "C19-10": "a property with 9-15 (17-23, ..) distinct values for one type: the last incomplete group of eight is missing from the IN list",
    "C01-11": "a float-typed document value -0.0 compared with 0.0 (==, <, >=, in [..]): not equal / smaller",
    "C02-11": "`not rule` / `!rule` clauses observed through --verbose / --print-json: the recorded clause status is not inverted (statuses stay correct)",
    "C03-11": "prefix not on a unary clause over several values with different outcomes: the aggregate is negated instead of every value",
    "C04-11": "two type blocks for one resource type where the first skips for every resource: later blocks of that type are answered SKIP",
    "C05-11": "a document with competing key spellings validated after a document with a single spelling, in one process: another entry is reached",
    "C06-11": "plain `test` with a misspelt expectation word: ignored, exit 0",
    "C07-11": "a rules file without rules (comments only / empty) among the rules and a machine-readable output: a note on stdout breaks the document",
    "C08-11": "a filter that contains a `when` block / query block / parameterised call: panic while rendering the query",
    "C09-11": "a failing rule that also holds a block over an empty selection (`%none { .. }`): the block is listed as a failed check",
    "C10-11": "an integer-valued number >= 2^63 in the data, reported in a failing check: value shown as 9223372036854775807",
    "C11-11": "a wide (not deep) document with more than ~500 pending values along one path: refused by validate as nested too deep",
    "C12-11": "-m with data files whose modification times are identical: all but one are dropped",
    "C13-11": "strings that spell integers: ordered and compared numerically (\"9\" < \"10\", \"007\" equal to \"7\" in lists)",
    "C14-11": "a # comment between a nested block / let / rule reference and the closing brace: parse error",
    "C15-11": "a variable holding list values followed by an index, key or filter (%tags[0]): the inserted [*] now iterates the lists",
    "C16-11": "structured `test` with two cases of the same name: the later one is not reported, its unmet expectation does not count",
    "C17-11": "data on STDIN (no --data) together with -i: the STDIN document is not read",
    "C18-11": "json_parse of a source string and of a rewritten copy of it in one evaluation: the second call gets the first structure",
    "C19-11": "a property that is a list in one resource and a map / bool / null in its sibling: IN [[..], {..}] no longer compares whole lists",
    "C01-12": "a filter on a LIST whose clause raises an evaluation error (ordering comparison of unlike types): the error is swallowed and the element dropped",
    "C02-12": "`--payload` with two rules entries where a later entry passes: the earlier FAIL is lost from the exit code",
    "C03-12": "prefix not on a binary clause that already carries an operator-level negation (`not x != v`): the two no longer cancel",
    "C04-12": "a clause line whose first key merely starts with the letters `or` (`order`, `origin`): joined to the previous line as a disjunction",
    "C05-12": "several rules files given with overlapping directory / file arguments: de-duplicated through a HashMap, report order varies",
    "C06-12": "`test` with a rule name defined twice, the definitions not adjacent: only consecutive same-named rules are grouped",
    "C07-12": "console `--show-summary all` over several data files: the header shows the running status instead of the file's own",
    "C08-12": "`rulegen` on a resource whose `Type` is present but not a string: panic",
    "C09-12": "a rules file without named rules (only library / parameterised rules) next to others: file status falls back wrongly instead of following the lists",
    "C10-12": "plain YAML floats written without a leading zero (`.75`, `-.25`): reported as strings",
    "C11-12": "a quoted argument of a single-value short-form tag (`!Ref '8080'`): re-typed by content, differs from the long form",
    "C12-12": "plain `validate` with several (rules, data) pairs: the per-pair reporter receives the cumulative status",
    "C13-12": "negated `>` (`!>` / `not >`) : rewritten to `<` instead of `<=`, wrong on equal values",
    "C14-12": "comma-first layout: a line break or comment BEFORE the comma of a list / struct literal no longer parses",
    "C15-12": "`count()` of a literal written in place or bound with let: counts 0, the parameterised call counts 1",
    "C16-12": "`.jsn` test files under `test --dir` with structured output: dropped from the report",
    "C17-12": "an empty `{}` parameter file merged first: later root entries are invisible to `this.*` / keys filters, order-dependent",
    "C18-12": "`regex_replace` with several matches in one string: only the first is replaced",
    "C19-12": "a string with two or more consecutive blanks nested inside a list / map property value: blanks collapsed, rule FAILs on its own template",
    "C01-13": "a filter on SCALAR elements after `[*]` (`ports[*][ this > 1024 ] <= 65535`): `this` inside the filter is no longer the element, nothing is selected, SKIP",
    "C02-13": "a rule-level `when` whose condition is SKIP (nothing to compare): the body is evaluated anyway",
    "C05-13": "`test --dir` with several tests files for one rules file: cases listed in per-process hash order",
    "C07-13": "`-o sarif` with the same failing check in several data files: results de-duplicated without the file, later files lose theirs",
    "C09-13": "a passing `not <rule>` clause inside a failing rule: the named rule's failing check is listed under the rule that holds the clause",
    "C10-13": "a list with more than ten elements: the path of element 10 (and below it) is written `/:`",
    "C12-13": "plain `validate` over documents of mixed shapes (template / settings file): the console rendering of later pairs follows the first document",
    "C15-13": "a query-bound variable of which some entries are unresolved, referenced with a continuation (`%v.key`): the unresolved entries are dropped",
    "C16-13": "an unmet SKIP expectation: every rendering shows an empty evaluated list",
    "C18-13": "`json_parse` of the text `null`: dropped instead of a null value",
    "C03-13": "a negated `in` whose left side is one value that is an EMPTY list (`not Ports in [80, 443]`, `Ports: []`): PASS in both polarities",
    "C04-13": "a rule name defined twice (PASS and SKIP on one document): the structured report lists it by whichever definition comes last",
    "C06-13": "`--structured -o json|yaml|sarif` with a rules file that does not parse and nothing failing: exit 0 instead of 5",
    "C08-13": "`parse_char` on an empty string value: panic",
    "C11-13": "a short-form sequence tag on an EMPTY sequence (`!And []`): loaded as null plus a stray list",
    "C13-13": "a boolean on the left of `!=` against a value of another type: satisfied instead of not comparable",
    "C14-13": "the word form `not empty` / `NOT EMPTY` between a query and its block: rejected, `!empty` still accepted",
    "C17-13": "a duplicate top-level key whose first-merged value is null: silently replaced instead of the duplicate-key error",
    "C19-13": "a property that is null in one resource and set in another of the same type: the null is not recorded, the rule FAILs on its template",
}


def seed_names():
    import re
    return sorted(d for d in os.listdir(os.path.join(V, "seeded")) if re.match(r"^C\d\d(-\d+)?$", d) and os.path.exists(os.path.join(V, "seeded", d, "patch.diff")))


def sh(cmd, **kw):
    return subprocess.run(cmd, shell=True, stdout=subprocess.PIPE, stderr=subprocess.STDOUT, text=True, **kw)


def run_check(prop, env=None):
    e = dict(os.environ)
    e.update(env or {})
    p = subprocess.run([os.path.join(V, "gv"), "check", prop, "--tier", "quick"], cwd=V, env=e, stdout=subprocess.PIPE, stderr=subprocess.STDOUT, text=True)
    sigs = sorted(set(l.split("signature=")[1].split(" ::")[0] for l in p.stdout.splitlines() if "signature=" in l))
    return p.returncode, sigs


def own():
    # ./seedall.py own [--clone DIR] [names...]: with --clone the patches are applied to DIR (GV_REPO) instead of /repo, e.g. under `vp run --with-repo`
    args = sys.argv[2:]
    repo, env = "/repo", None
    if args and args[0] == "--clone":
        repo, env, args = args[1], {"GV_REPO": args[1]}, args[2:]
    assert sh("git -C %s diff --quiet" % repo).returncode == 0, "%s has uncommitted changes" % repo
    head = sh("git -C %s log --format=%%h -n1" % repo).stdout.strip()
    only = args
    for seed in seed_names():
        if only and seed not in only:
            continue
        prop = seed[:3]
        d = os.path.join(V, "seeded", seed)
        patch = os.path.join(d, "patch.diff")
        assert sh("git -C %s apply %s" % (repo, patch)).returncode == 0, seed
        try:
            rc, sigs = run_check(prop, env)
        finally:
            sh("git -C %s checkout -- ." % repo)
            sh("git -C %s checkout -- evidence/%s.json" % (V, prop))
        conf = json.load(open(os.path.join(d, "confirm.json"))) if os.path.exists(os.path.join(d, "confirm.json")) else {}
        meta = {
            "breaks_property": prop,
            "needs_to_manifest": NEEDS[seed],
            "origin": "independent sub-agent given only the property text and a scratch worktree of /repo (no access to /verif)",
            "confirmed_in_scratch_worktree": conf,
            "what_was_run": ["git -C <worktree> apply patch.diff; cargo build --offline; cargo nextest run --workspace --no-fail-fast --offline (only the 15 baseline validate_tests failures); "
                             "bash demo.sh <worktree> -> non-zero; git checkout -- .; cargo build --offline; bash demo.sh <worktree> -> 0",
                             "git -C /repo apply patch.diff; ./gv check %s --tier quick; git -C /repo checkout -- ." % prop],
            "repo_head_when_checked": head,
            "own_check_exit": rc,
            "own_check_detects": rc == 1,
            "violation_signatures": sigs[:8],
        }
        json.dump(meta, open(os.path.join(d, "meta.json"), "w"), indent=1)
        print(seed, "detected" if rc == 1 else "MISSED rc=%d" % rc, sigs[:2], flush=True)


def matrix(clone):
    env = {"GV_REPO": clone}
    out = {}
    only = sys.argv[3:]
    for seed in seed_names():
        if only and seed not in only:
            continue
        patch = os.path.join(V, "seeded", seed, "patch.diff")
        assert sh("git -C %s apply %s" % (clone, patch)).returncode == 0, seed
        row = {}
        try:
            for prop in PROPS:
                rc, sigs = run_check(prop, env)
                row[prop] = rc
        finally:
            sh("git -C %s checkout -- ." % clone)
        out[seed] = row
        print(seed, " ".join("%s:%s" % (k, "X" if v == 1 else ("?" if v == 2 else ".")) for k, v in row.items()), flush=True)
    print(json.dumps(out))


if __name__ == "__main__":
    if sys.argv[1] == "own":
        own()
    else:
        matrix(sys.argv[2])
