#!/usr/bin/env python3
"""Run seeded breaks against the checks.

  ./seedall.py own            each seed against the quick check of its own property (in /repo, patch applied and undone)
  ./seedall.py matrix DIR     every seed x every quick check, on a scratch clone DIR of /repo (GV_REPO), e.g. under `vp run --with-repo`
Writes /verif/seeded/<id>/meta.json (own) or prints the matrix as JSON (matrix)."""
import json
import os
import subprocess
import sys

V = os.path.dirname(os.path.abspath(__file__))
PROPS = ["C%02d" % i for i in range(1, 20)]
NEEDS = {
    "C01": "an `or` line whose alternatives mix SKIP (empty filter) and FAIL with no PASS: the line must be FAIL, the patch makes it SKIP",
    "C02": "an `or` line with a FAIL before its PASS followed, in the same block, by a line that SKIPs and no line that fails on its own (stale per-line counter)",
    "C03": "prefix not on `>=` with a value exactly equal to the right-hand side (complement table maps Ge to Le)",
    "C04": "same stale-counter change as C02: verdict depends on the order of alternatives / lines",
    "C05": "validate --structured -o sarif with >= 2 non-compliant data files, compared across processes (artifacts in HashSet order)",
    "C06": "validate --structured -o junit with >= 2 data files where a FAIL is followed by a non-failing file (total_failures = instead of +=)",
    "C07": "--structured -o sarif plus a failing check without source location (unresolved block, failed rule reference): result dropped",
    "C08": "`X IN []` with a list-valued X: index [0] into the empty right-hand list panics",
    "C09": "a FAIL rule whose record subtree yields no reportable check (`!empty` block over an empty selection) vanishes from not_compliant",
    "C10": "a failing check whose value is a scalar held directly by a list: its line/column is the list's, not the scalar's",
    "C11": "an unquoted float written with an exponent (1e3) loaded by `validate` becomes a string; test / run_checks still see a float",
    "C12": "plain-mode validate with >= 2 data files and a rule referenced by name: the rule-status memo survives from one data file to the next",
    "C13": "two integers >= 2^53 that differ by less than the f64 spacing compare equal (compared through f64)",
    "C14": "a `#` comment between `[` and `keys` in a map-key filter turns it into an ordinary filter on a key named `keys` (no parse error)",
    "C15": "a file-level `let v = some <query>` referenced at least twice: later references see the unfiltered (unresolved) members",
    "C16": "a rule name defined twice, SKIP expected, a non-last definition not SKIP while the last one is SKIP: expectation reported as met",
    "C17": "a merge step whose right-hand side has more top-level keys than everything merged so far, and a rule iterating the merged root (`this.*` / keys)",
    "C18": "join() over a collection whose first element(s) are the empty string: the delimiter after them is dropped",
    "C19": "a string property containing a backslash, tab or control character: rendered with JSON escaping, the generated clause no longer matches",
}


def sh(cmd, **kw):
    return subprocess.run(cmd, shell=True, stdout=subprocess.PIPE, stderr=subprocess.STDOUT, text=True, **kw)


def run_check(prop, env=None):
    e = dict(os.environ)
    e.update(env or {})
    p = subprocess.run([os.path.join(V, "gv"), "check", prop, "--tier", "quick"], cwd=V, env=e, stdout=subprocess.PIPE, stderr=subprocess.STDOUT, text=True)
    sigs = sorted(set(l.split("signature=")[1].split(" ::")[0] for l in p.stdout.splitlines() if "signature=" in l))
    return p.returncode, sigs


def own():
    assert sh("git -C /repo diff --quiet").returncode == 0, "/repo has uncommitted changes"
    head = sh("git -C /repo log --format=%h -n1").stdout.strip()
    for prop in PROPS:
        d = os.path.join(V, "seeded", prop)
        patch = os.path.join(d, "patch.diff")
        if not os.path.exists(patch):
            continue
        assert sh("git -C /repo apply %s" % patch).returncode == 0, prop
        try:
            rc, sigs = run_check(prop)
        finally:
            sh("git -C /repo checkout -- .")
            sh("git -C %s checkout -- evidence/%s.json" % (V, prop))
        conf = json.load(open(os.path.join(d, "confirm.json"))) if os.path.exists(os.path.join(d, "confirm.json")) else {}
        meta = {
            "breaks_property": prop,
            "needs_to_manifest": NEEDS[prop],
            "origin": "independent sub-agent given only the property text and a scratch worktree of /repo (no access to /verif)",
            "confirmed_in_scratch_worktree": conf,
            "what_was_run": ["git -C <worktree> apply patch.diff; cargo build --offline; cargo nextest run --workspace --no-fail-fast --offline (only the 15 baseline validate_tests failures); "
                             "bash demo.sh <worktree> -> non-zero; git checkout -- .; cargo build --offline; bash demo.sh <worktree> -> 0",
                             "git -C /repo apply patch.diff; ./gv check %s --tier quick; git -C /repo checkout -- ." % prop],
            "repo_head_when_checked": head,
            "own_check_exit": rc,
            "own_check_detects": rc == 1,
            "violation_signatures": sigs[:8],
        }
        json.dump(meta, open(os.path.join(d, "meta.json"), "w"), indent=1)
        print(prop, "detected" if rc == 1 else "MISSED rc=%d" % rc, sigs[:2], flush=True)


def matrix(clone):
    env = {"GV_REPO": clone}
    out = {}
    for seed in PROPS:
        patch = os.path.join(V, "seeded", seed, "patch.diff")
        if not os.path.exists(patch):
            continue
        assert sh("git -C %s apply %s" % (clone, patch)).returncode == 0, seed
        row = {}
        try:
            for prop in PROPS:
                rc, sigs = run_check(prop, env)
                row[prop] = rc
        finally:
            sh("git -C %s checkout -- ." % clone)
        out[seed] = row
        print(seed, " ".join("%s:%s" % (k, "X" if v == 1 else ("?" if v == 2 else ".")) for k, v in row.items()), flush=True)
    print(json.dumps(out))


if __name__ == "__main__":
    if sys.argv[1] == "own":
        own()
    else:
        matrix(sys.argv[2])
