// Loader-only entry for Miri: loads every document of a JSON list (argv[1]) through the libyaml based
// `validate` loader (hand-bound unsafe-libyaml: raw pointers, MaybeUninit, manual Owned<T>) and prints
// a digest of what was loaded. Miri flags undefined behaviour that does not crash.
fn main() {
    let path = std::env::args().nth(1).expect("docs file");
    let text = std::fs::read_to_string(path).expect("read");
    // minimal JSON string-array reader (avoids pulling serde into the interpreted part more than needed)
    let docs: Vec<String> = parse_string_array(&text);
    let mut ok = 0usize;
    let mut err = 0usize;
    let mut bytes = 0usize;
    for d in &docs {
        match cfn_guard::verif::load_validate(d) {
            Ok(s) => {
                ok += 1;
                bytes += s.len();
            }
            Err(_) => err += 1,
        }
    }
    println!("MIRI-LOADER docs={} ok={} err={} dump_bytes={}", docs.len(), ok, err, bytes);
}

fn parse_string_array(t: &str) -> Vec<String> {
    let mut out = Vec::new();
    let mut chars = t.chars().peekable();
    while let Some(c) = chars.next() {
        if c == '"' {
            let mut s = String::new();
            while let Some(c) = chars.next() {
                match c {
                    '"' => break,
                    '\\' => match chars.next() {
                        Some('n') => s.push('\n'),
                        Some('t') => s.push('\t'),
                        Some('r') => s.push('\r'),
                        Some('"') => s.push('"'),
                        Some('\\') => s.push('\\'),
                        Some('/') => s.push('/'),
                        Some('u') => {
                            let h: String = (0..4).filter_map(|_| chars.next()).collect();
                            if let Some(ch) = u32::from_str_radix(&h, 16).ok().and_then(char::from_u32) {
                                s.push(ch)
                            }
                        }
                        Some(o) => s.push(o),
                        None => {}
                    },
                    o => s.push(o),
                }
            }
            out.push(s);
        }
    }
    out
}
