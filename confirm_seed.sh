#!/bin/bash
# usage: confirm_seed.sh <ID> [worktree]  - independently confirm a seeded break in its scratch worktree, then store it under /verif/seeded/<ID>
id=$1; wt=${2:-/tmp/seed-$id}; name=${3:-$id}
out=/verif/seeded/$name
cd $wt || exit 3
git checkout -q -- . ; 
log=$wt/OUT/confirm.log; : > $log
git apply OUT/patch.diff || { echo "patch does not apply" | tee -a $log; exit 3; }
cargo build --offline >>$log 2>&1 || { echo "BUILD FAILED with patch" | tee -a $log; git checkout -q -- .; exit 1; }
summary_p=$(cargo nextest run --workspace --no-fail-fast --offline --color never 2>&1 | tee -a $log | grep -E "^\s+Summary" | tail -1)
nonval_fail=$(grep -E "^\s+FAIL \[" $log | grep -v "validate_tests::" | sort -u | wc -l)
bash OUT/demo.sh $wt >>$log 2>&1; demo_p=$?
git checkout -q -- .
cargo build --offline >>$log 2>&1
bash OUT/demo.sh $wt >>$log 2>&1; demo_c=$?
echo "$id: with-patch tests: $summary_p ; non-validate failures: $nonval_fail ; demo with patch rc=$demo_p ; demo clean rc=$demo_c"
if [ "$nonval_fail" = "0" ] && [ $demo_p -ne 0 ] && [ $demo_c -eq 0 ]; then
  mkdir -p $out; cp -r OUT/* $out/; rm -f $out/confirm.log
  echo "{\"confirmed\": true, \"tests_with_patch\": \"$summary_p\", \"non_validate_failures\": $nonval_fail, \"demo_rc_with_patch\": $demo_p, \"demo_rc_clean\": $demo_c}" > $out/confirm.json
  echo "$id CONFIRMED -> $out"
else
  echo "$id NOT CONFIRMED"
fi
