#!/bin/bash
# usage: seedtest.sh <patch.diff> <PROP> [tier]   - apply a seeded break to /repo, run the check, undo
set -u
patch=$1; prop=$2; tier=${3:-quick}
cd /verif
git -C /repo diff --quiet || { echo "/repo has uncommitted changes"; exit 3; }
git -C /repo apply "$patch" || { echo "patch does not apply"; exit 3; }
./gv check $prop --tier $tier > /tmp/seedtest.$$.out 2>&1
rc=$?
git -C /repo checkout -- .
git -C /verif checkout -- evidence/$prop.json 2>/dev/null
grep -E "^(VIOLATION|KNOWN|INCONCLUSIVE|C[0-9]+ )|signature=" /tmp/seedtest.$$.out | cut -c1-300 | head -12
rm -f /tmp/seedtest.$$.out
echo "seedtest rc=$rc"
exit $rc
