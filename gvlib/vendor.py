"""Assemble a cargo directory source (/verif/vendor) from the crates cached in ~/.cargo/registry: needed by the
nightly toolchain (Miri / sanitizer builds), whose own registry cache lacks this repository's dependencies."""
import glob
import json
import os
import re
import subprocess
import sys
import tarfile

from . import core

VENDOR = os.path.join(core.VERIF, "vendor")


def main(lockfile=None):
    lockfile = lockfile or os.path.join(core.REPO, "Cargo.lock")
    txt = open(lockfile).read()
    pkgs = re.findall(r'\[\[package\]\]\nname = "([^"]+)"\nversion = "([^"]+)"\nsource = "registry[^"]*"\nchecksum = "([0-9a-f]+)"', txt)
    os.makedirs(VENDOR, exist_ok=True)
    missing = []
    n = 0
    for name, ver, cks in pkgs:
        d = os.path.join(VENDOR, "%s-%s" % (name, ver))
        if os.path.exists(os.path.join(d, ".cargo-checksum.json")):
            continue
        cands = glob.glob(os.path.expanduser("~/.cargo/registry/cache/*/%s-%s.crate" % (name, ver)))
        if not cands:
            missing.append("%s-%s" % (name, ver))
            continue
        with tarfile.open(cands[0]) as t:
            t.extractall(VENDOR)
        json.dump({"files": {}, "package": cks}, open(os.path.join(d, ".cargo-checksum.json"), "w"))
        n += 1
    print("vendor: %d crates unpacked, %d already there, %d missing %s" % (n, len(pkgs) - n - len(missing), len(missing), missing[:5]))
    return not missing


if __name__ == "__main__":
    sys.exit(0 if main() else 1)
