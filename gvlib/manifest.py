"""Regenerates MANIFEST.json from the table below (python3 -m gvlib.manifest)."""
import json
import os

from . import core

CHECKS = {
    "C13": dict(
        technique="runtime monitoring: exhaustive operator/value matrix executed through run_checks, judged by a Python reference oracle",
        text="Every ordered pair of a 54-value universe (incl. strings that spell integers) x 5 comparison operators x both polarities x {query RHS, literal RHS, literal-bound variable as LHS}, random operands beyond the universe (random 64-bit integers and neighbours, random-bit-pattern doubles, unicode strings), the in-list (incl. a literal on the left and a document list on the right - as a list value, as its elements, through a query-bound variable, under `some`), "
             "range-bracket and regex forms (pattern literal, pattern in a variable on the right and on the left) are executed against the real evaluator and each verdict is compared with Python "
             "semantics on the model values. Exhaustive on that finite universe; says nothing outside it.",
        note="Trusts: Python int/float/str comparison and re.search as the reference; json round trip of the universe. "
             "List-flattening pairs are excluded (documented behaviour).",
        ref="DESIGN.md §6 P-C13"),
}

CHECKS["C03"] = dict(
    technique="runtime monitoring: metamorphic relation monitor over groups of negation variants evaluated in one run",
    text="For every LHS-shape x some/all x operator x RHS-class combination (exhaustive over the listed classes) and for random "
         "clauses on random documents, 6-9 spellings of the negated/un-negated clause are evaluated together by the real "
         "evaluator; the monitor asserts prefix-not == operator-not (all spellings), double negation == original, flip on "
         "single comparable values, flip for `in` with right-hand lists taken from the document (query, variable, `[*]`), order inverses, the same laws with inline function calls and with queries that select nothing on the right-hand side (SKIP under every spelling), the named-rule negation table and the same table for negated parameterised calls "
         "(`not p(args)` in rule bodies, when conditions, when blocks and `or` lines, with and without custom message).",
    note="Trusts the generator's model-based decision that a query selects exactly one comparable value (plain key paths only). "
         "Needs no reference semantics.",
    ref="DESIGN.md §6 P-C03")

CHECKS["C02"] = dict(
    technique="runtime monitoring: offline checker over the recorded evaluation-record tree + online hook assertions on record open/close",
    text="All CNF shapes up to 3x3 with leaves forced to PASS/FAIL/SKIP are evaluated at 9 composition sites (thorough: all ~490k; quick: "
         "all shapes with <=2 lines plus a sample) and random programs with type blocks, parameterised rules, nested when/blocks are "
         "evaluated on random documents; every status assignment of 1-3 definitions of one rule name x 5 ways of naming it (clause, not, when, when !, or line) x user before/after is checked against `the first definition that is not SKIP decides`, a parameterised rule forced to PASS / FAIL / SKIP x 6 call forms, and type / filter / list blocks over two values whose bodies are forced to every pair of statuses. Each emitted EventRecord tree is checked node by node against the property's composition "
         "rules, the rule status against the formula over the forced leaves, the hook stream for balanced records, and the root "
         "status against the structured report and the exit code of `validate --print-json`; with 2-3 data files in one run every printed record goes through the tree checker, must have the status of that file evaluated alone, and the exit code follows the worst of them.",
    note="Trusts the leaf gadgets to have the intended status (itself asserted through the tree). Filter records are treated as "
         "transparent; vacuous clauses (no value compared) are not constrained; error-terminated evaluations are exempt.",
    ref="DESIGN.md §6 P-C02")

CHECKS["C04"] = dict(
    technique="runtime monitoring: metamorphic order/repetition monitor with hook-observed memoisation histories",
    text="Random base programs that share variables and named references (30% with an alternative, `when`-guarded definition of a rule name) are evaluated together with up to ~25 order/repetition "
         "transforms each (all permutations of small rule bodies and rule orders, shuffled alternatives, duplicated lines, alternatives "
         "and rules, early/late references, cyclic rule references under every rule order, several type blocks of one type (the first skipping) under line and rule permutations, nested parameterised calls reached twice with different arguments in either line order, a map with case-variant spellings of its keys addressed in a third spelling under 26 rule orders and all line orders, inserted filter lines that select nothing and therefore skip) on 2-3 documents; rule->status maps must agree. The verif-hooks event stream shows "
         "how many distinct variable-resolution orders and rule-status hit/miss patterns were actually exercised.",
    note="Groups where any variant errors are inconclusive (the property's proviso). Trusts the printer/parser round trip of the generated AST.",
    ref="DESIGN.md §6 P-C04")

CHECKS["C15"] = dict(
    technique="runtime monitoring: metamorphic abstraction-step monitor (let/parameter introduction and inlining) with hook-observed variable resolution",
    text="For random programs, one abstraction step at a time is applied at sampled abstraction sites - literal->%v at file/rule/block "
         "scope, query prefix->%v in a same-context scope, all-references variant, unused lets (incl. unresolvable and erroring ones), "
         "shadowing, a key of a query taken from a variable (`a.%k`), inlining of parameterised-rule calls - and both programs are evaluated on the same document; the rule->status maps "
         "must agree. Divergences are classified (hypothesis program for the `[*]`-after-variable quirk, per-line attribution for inlining) "
         "so that known findings have narrow signatures. Exhaustive key-interpolation matrix (12 clause forms x 3 polarities x 12 value classes x file/rule/block scope), call-volume check "
         "(3/70/200 elements x call per element, nested, 90 sequential, negated; twice per process) and idle-argument check (rewriting the argument of an unread parameter as `some q` or a literal); when-shadow matrix (a `let` inside a `when` block vs what its guard reads); keys-filter matrix (right-hand side from a literal-bound variable vs the literal in place); key-list matrix (a list of key names in a variable, literal / query-bound / passed as parameter, some keys absent, vs the keys written one by one); block-let matrix (a `let` inside rule / when / type / query blocks and filters, bound to literal, query, function result, vs the in-place form).",
    note="Skips the documented exception (`q empty` -> `%v empty`). Trusts the printer. Known findings: three classes in known_findings.json.",
    ref="DESIGN.md §6 P-C15")

CHECKS["C14"] = dict(
    technique="runtime monitoring: differential monitor over parse-tree output of systematically re-spelled programs",
    text="Each generated program is pretty-printed canonically and with every single-occurrence flip of every documented token class "
         "(keyword case, not/NOT/!, or/OR/|OR|, =/:=, quotes, .n/[n], leading this., several blanks or a tab after not/NOT and between the tokens of a clause, indentation, blank lines, trailing spaces, line breaks in "
         "lists/filters, # comments) plus random combinations; `parse-tree --print-json` of variant and canonical text must be the same AST "
         "(locations removed), sampled verdicts must agree; type blocks are compared with their desugaring and file-level clauses with `rule default` by verdict (incl. a file-level `when` block that names helper rules); fixed layout pairs around filters that start with a quoted key; an explicit-`this` matrix (clause forms x block / filter / when contexts, with and without `this.`) is compared by verdict on documents that make both outcomes occur.",
    note="A variant that fails to parse is a violation. Documented restrictions (reference ends its line) are never varied. Leading `this` is normalised in the AST and checked by verdict.",
    ref="DESIGN.md §6 P-C14")

CHECKS["C06"] = dict(
    technique="runtime monitoring: real-process exit-status monitor with a scenario classifier as oracle",
    text="The shipped binary is run as real processes on scenarios built from finite classes (1..3 rules files from 9 kinds (incl. rules whose `when` guard decides by data and files that are not UTF-8) x 1..3 data "
         "files from 6 kinds (incl. documents no rule applies to; every single-rules-file combination always runs), every position, x 12 invocation modes incl. payload, stdin, directories, explicit files mixed with directories in one option list (both orders), --print-json (plain, verbose, payload), structured json/yaml/junit/sarif; "
         "`test` scenarios x 4 formats x 4 layouts - files, directory, directory with 2-3 rules files and the scenario file at each position, --test-data directory with the scenario file in a sub-directory between all-matching files, with and without -a / -m); the exit status must fall in the class a 30-line classifier derives from what the "
         "generator built (per-pair verdicts confirmed by singleton library runs); in-process results must agree with process exits; "
         "missing paths and unusable option combinations must give an error exit, never 0 or 19; re-runs under NO_COLOR / CLICOLOR_FORCE / TERM settings must keep the exit status.",
    note="Trusts singleton run_checks verdicts for pair classification and PyYAML for deciding that a 'malformed' sample really is malformed. "
         "Crash exits are inconclusive here (C08 owns them).",
    ref="DESIGN.md §6 P-C06")

CHECKS["C05"] = dict(
    technique="runtime monitoring: repeated-execution differential monitor (fresh processes, rotated environments, in-process repetition)",
    text="29 command/output modes (incl. runs that end in an error - unknown rule / call, a tests file whose expectations are all misspelt - stderr and structured error text compared; validate structured json/yaml/sarif/junit, plain json/yaml, print-json, console variants, parse-tree, test in "
         "4 renderings, rulegen (template with values and property names that differ only in letter case or type), and 4 modes of function rules: parse_epoch over 12 timestamp spellings incl. zone-less and DST-gap ones, case mapping, "
         "conversions, join/regex_replace; 2 console modes on Terraform-plan-shaped data; 3 modes writing to an --output file that held other content before) are each run 5 (quick) / 8 (thorough) times as fresh processes of the shipped binary - fresh hash seeds - under "
         "input files re-stamped in another modification-time order before every run, rotated TZ (tzdata names and POSIX strings)/LANG/HOME/COLUMNS/NO_COLOR/CLICOLOR_FORCE/RUST_BACKTRACE/cwd/pipe-vs-file, and payload modes 5 times inside one process; exit codes must be "
         "equal, structured output byte-identical (elapsed-time fields masked), console output equal as a multiset of lines; what a structured "
         "json/yaml/junit/sarif batch says about one data file must equal what the run on that file alone says (nothing evaluated earlier in the process); rules iterate map keys with key filters (`[ keys == | != | in | not in ]`) so that map iteration order is observable.",
    note="A random ordering of k items escapes N runs with probability (1/k!)^(N-1); inputs have >=3 rules/files per collection. Environment rotation is a sample, not all environments.",
    ref="DESIGN.md §6 P-C05")

CHECKS["C09"] = dict(
    technique="runtime monitoring: cross-channel monitor (verbose record tree vs structured report of the same evaluation)",
    text="Random programs with distinct rule names and a unique custom message on every clause are evaluated on random documents; the "
         "structured report (library and `validate --structured -o json`) is checked against the verbose record tree of the same "
         "evaluation: each rule in exactly the partition its status dictates, file-status rule, batch report over 1-3 rules files (distinct names or one base name in different directories) == union of "
         "single reports, every reported leaf check attributable (by message) to a FAIL value check in that rule's own subtree; records and report entries of "
         "parameterised calls (incl. nested and message-less ones) must carry exactly the message written at that call in the rules text; every listed `in` / ordering comparison must fail on the very values it prints (query-vs-query clauses with partial matches included), every listed unary check must fail on the value it prints (clause found through its unique message); a block over an empty selection inside a failing rule must not be listed.",
    note="The verbose tree is the ground truth (its own consistency is C02). Reported leaves are matched by custom message; leaves without a message match any FAIL record of the rule.",
    ref="DESIGN.md §6 P-C09")

CHECKS["C07"] = dict(
    technique="runtime monitoring: cross-configuration differential monitor with independent output parsers",
    text="For random programs x documents the structured JSON report is the baseline and ~70 other configurations (structured yaml/sarif/junit, plain "
         "single-line/json/yaml x 7 --show-summary selections x {-, -v, -p}, data on stdin, --payload plain and structured, run_checks and the FFI "
         "function in verbose and report mode, incl. reports > 8 KiB) are parsed back by independent parsers (python json, PyYAML, xml.etree, "
         "regex) and must agree on rule->status, file status and exit code; YAML==JSON as data, SARIF result count == failing checks, JUnit marks/counters. Groups of 2-3 rules files (distinct names, or one base name in different directories) x 1-3 data files, half of them with an "
         "--input-parameters document, go through 13 configurations (files, payload; plain, structured) and must agree on the exit code and the per-pair verdicts; "
         "a third of the rules-file groups contain a placeholder file without rules; a quarter of the programs define one rule name twice with different outcomes; documents and custom messages carry markup-significant characters (<, &, quotes); an evaluation that ends in an error must end with the same exit code in 8 configurations; in multi-file JUnit output every testsuite's failures=/errors= must count its own cases and agree with that data file's structured status.",
    note="Console reporters show only what -S selects: containment there, equality for -S all. The Lambda handler itself cannot be linked; it is covered via run_checks with its argument pattern.",
    ref="DESIGN.md §6 P-C07")

CHECKS["C12"] = dict(
    technique="runtime monitoring: batch-vs-singleton differential monitor with hook-observed scope lifetimes",
    text="Batches of 1-3 rules files that share variable and rule names with different definitions x 2-4 documents differing exactly in the "
         "queried keys are validated as explicit files in several orders (plain and structured), as directories with -a and -m (explicit mtimes, 30% identical), "
         "as payload lists (half of the batches with an --input-parameters document read by every rules file), as structured junit and sarif batches (per-data-file testsuite / result units vs the stand-alone run), with data files of one base name in different directories, and as multi-case `test` files; 30% alternate documents with one and with three competing spellings of a key (stand-alone pairs in fresh processes), 40% of the batches contain an empty / blank rules file (listed anywhere, walked first), 30% make 24-40 parameterised-rule calls per pair (per-call bookkeeping must start afresh), a pair that only fails after other evaluations in the same process is a violation; every (rules, data) pair's report must equal the report of the pair validated alone and "
         "the exit status must be the maximum over the pairs (40% of the batches end with a rules file every document satisfies). verif-hooks events assert one root scope per pair and no memo hit before a miss in a scope.",
    note="Reports are compared after removing file names and line/column details. In structured mode compliant/not_applicable are name sets by design.",
    ref="DESIGN.md §6 P-C12")

CHECKS["C16"] = dict(
    technique="runtime monitoring: differential monitor between the `test` and `validate` front ends over enumerated expectation assignments",
    text="Generated rules files (45% with a doubly defined rule name, half with rules that name other rules, 40% with file-level clauses = the `default` rule) x 1-4 documents x all 3^k expectation assignments (k<=3) incl. rules without "
         "expectation are run through `test` in plain/json/yaml/junit rendering and files/--dir layout (tests files under every extension the directory walk accepts, -a/-m ordering); each (case, rule) outcome (met / unmet / no "
         "expectation), the evaluated statuses of unmet expectations and the exit code 0/7 must follow from the statuses `validate --print-json` "
         "assigns to that rule on the same input, and all renderings must carry the same relation; half of the runs have a second test-data file (-t <dir> / --dir); a template written with 14 short-form tags is used as test input with "
         "expectations equal to validate's statuses (all met, exit 0) and with one deliberately wrong (exit 7); expectation files written with JSON escapes (incl. surrogate pairs) must name the same rules as the plain spelling; two test cases of one name (and unnamed ones) are all reported and counted; every JUnit failures=/errors= attribute must equal the number of <failure>/<error> elements below it.",
    note="validate's print-json record is the reference for per-definition statuses. Output order is C05's concern, relations are compared as sets.",
    ref="DESIGN.md §6 P-C16")

CHECKS["C17"] = dict(
    technique="runtime monitoring: differential monitor against the pre-merged document, over all -i orders and modes",
    text="Documents are split at random into data + 1-3 parameter files (JSON/YAML, differing sizes; flat names, the same base name in different "
         "directories, or one directory given to -i, with stray non-data files in it; 30% of the parameter files are symbolic links, 60% of the lists carry an argument that contributes nothing); 35% of the rules files never spell a key (count / walk the merged root map); validating with -i in every order, in plain and "
         "structured mode, with one or two data files, with the data on STDIN and in payload mode must give the verdicts and exit class of validating the pre-merged document; "
         "rules read keys by name and iterate the merged root map (`this.*`, `[ keys == | in | regex ]`); a deliberately overlapping key (param/param, "
         "data/param; scalar, list and map values, equal or different) must produce an error exit without a verdict - not a crash, not a silent choice - in both modes.",
    note="The reference is the same front end on the pre-merged document.",
    ref="DESIGN.md §6 P-C17")

CHECKS["C19"] = dict(
    technique="runtime monitoring: round-trip monitor (rulegen -> parse-tree -> validate on the source and on a mutated template)",
    text="Generated CloudFormation-shaped templates (1-5 resources over 1-3 types; plain and 17 classes of odd strings, ints incl. 2^53+1 and i64::MIN, floats (fraction / integral / exponent), bools, nested "
         "lists/maps; repeated, re-typed (50 vs \"50\") and distinct values; uniform and non-uniform property sets, fleets of 7-19 resources with pairwise different values, a list-valued property next to a map / bool / null sibling) are fed to `rulegen` as a real process (twice); unless an "
         "error is reported the output must parse to exactly one rule per resource type with properties (type names incl. `-` and `@`), the --output file (absent, empty, longer, prefixed before) must equal stdout, every rule must PASS on the source "
         "template, and the rule of a type must FAIL after one scalar property value is changed to an unseen value; YAML templates written with 19 short-form tag spellings (scalar, sequence and mapping tags) must be refused or self-validate.",
    note="A rulegen crash is C08's concern (inconclusive here). Failing self-validations are attributed to value classes so that the two known findings stay narrow.",
    ref="DESIGN.md §6 P-C19")

CHECKS["C18"] = dict(
    technique="runtime monitoring: reference-model monitor (independent Python implementation of docs/FUNCTIONS.md) over observed function results",
    text="`let r = f(args)` is evaluated for every function x 23 argument queries (unicode, numeric strings, mixed-type lists, unresolved members first / in the middle / last / only, empty "
         "selections) x literal/query/variable/nested/file-level-let/call-argument forms, substring over 13x13 offsets (incl. -1, len, >=65536), join delimiters and empty members, "
         "regex_replace full/partial/no match, 45 boolean/integer/float spellings and 21 integers (boundaries, values that wrap to a digit in 8/16/32 bits) through all converters one by one, parse_epoch on 16 RFC 3339 timestamps (offsets, fractions, pre-1970), random literals, json round trips on random documents, a source string parsed twice (as it is and rewritten) in one rule; the result list is read back through a failing "
         "clause on %r and compared, type-strictly and in order, with the reference; unparsable input must raise an error, never a value.",
    note="The reference abstains (UNSPEC, counted in evidence) where the documentation is silent; Python re / urllib / float parsing are trusted on the restricted inputs.",
    ref="DESIGN.md §6 P-C18")

CHECKS["C11"] = dict(
    technique="runtime monitoring: model-vs-loaded differential monitor over serialisations x loaders (hooked loader probes + verdict channels); Miri on the loader in the thorough tier",
    text="Generated documents (unicode, digits-only, empty, keyword-looking strings, i64 bounds, extreme and random-bit-pattern floats, block scalars) and an 18-document corpus of "
         "placeholder-like shapes (single-key null maps next to lists, empty containers, hand-written long-form intrinsics) plus three wide documents (hundreds of siblings) are written by a position-tracking "
         "emitter as JSON compact/pretty, YAML flow and YAML block with random quoting/indent/comments; the verif-hooks loader probes dump every loaded "
         "node for the validate (libyaml) and the test/library (serde) loader and are compared type-strictly, incl. key and list order, with the model; "
         "the document must equal its own Guard literal and pass per-path type probes through validate, --payload, run_checks and test; all 21 tags x "
         "{scalar, sequence} x 3 nestings are compared with their long form, the YAML core tags (!!str, !!int, !!float, !!bool, !!null) must type a scalar as they say in both loaders; a front end that refuses a text the others evaluate is a violation; JSON texts with \\uXXXX / \\n / \\/ escapes must load to the string Python's json gives; ill-formed texts, non-string keys and tagged (non-plain) keys must be rejected by all 6 front ends. "
         "Thorough tier: ~90 documents (hostile texts, generated serialisations, tag documents) are loaded by the libyaml loader under Miri (undefined-behaviour interpreter).",
    note="Strings that YAML or Guard would type as non-strings are always emitted quoted (spellings outside the property are not generated plain). "
         "Multi-document streams and aliases are out of the statement.",
    ref="DESIGN.md §6 P-C11")

CHECKS["C10"] = dict(
    technique="runtime monitoring: independent pointer-walk and source-position monitor over structured reports and hooked loader dumps",
    text="Documents (incl. random doubles, 64-bit integers, YAML literal/folded block scalars, ASCII-escaped JSON strings, JSON members shadowed by an earlier member of the same key, subtrees under empty-string keys; CRLF, leading blank lines, tab-indented JSON) written by a position-tracking emitter in 4 layouts are validated against rules that fail on every node (one clause per scalar, "
         "unresolved probes below every map/list/scalar incl. keys taken from variables (`a.%k`), `in`, list iteration, filter-then-[*] on lists of lists and query right-hand sides, queries spelled in another case convention than the document); in the template-aware console view every printed PropertyPath must resolve to the Value printed with it; every reported from/to/traversed_to {path, "
         "value} is resolved in the model document by an independent walk and must yield exactly that value, unresolved reports must stop at the "
         "deepest existing point of the queried path, and every [L,C] in messages - and, through the verif-hooks loader probe, of every scalar node - "
         "must equal the line/column where the emitter wrote that scalar.",
    note="Only scalar positions are asserted. The roles from/to of query-to-query comparisons are not asserted (the statement only requires that reported paths point into the document).",
    ref="DESIGN.md §6 P-C10")

CHECKS["C08"] = dict(
    technique="runtime monitoring: crash/hang watchdog monitor over mutation and adversarial-grammar workloads, an arithmetic-overflow-checked build of the same worker, plus valgrind memcheck on the unsafe YAML loader paths",
    text="Mutated rule texts (a quarter with a long non-ASCII tail after the likely syntax error), 41 adversarial but grammatical program shapes (filters after this/index/filter/keys, literal and function LHS, unary "
         "operators on literals, mismatched/empty/unresolved function arguments, huge indices, self/mutual/when recursion, duplicate-name cycles, cyclic variable definitions, recursive parameterised rules, NaN/infinity operands, odd custom messages, filters whose members are `when` blocks / query blocks / calls, quoted keys that look like other tokens (`\"% used\"`, `'%'`, `\"*\"`, `\"\"`), wrong arity, backtracking "
         "regexes, multi-byte substrings ...), generated programs with all features on, and 24 hostile documents plus mutated ones (as data, parameter file, "
         "test spec, payload envelope), CloudFormation- and Terraform-plan-shaped documents (template-aware console views) and ~60 omitted/conflicting/unsupported argument combinations are run through validate (files, payload, structured, `.ruleset` files and mixed rules directories), test (one and several test files per run, directories), parse-tree, rulegen (real processes, non-UTF-8 files) and "
         "run_checks. The worker captures panics with file:line, the orchestrator attributes process deaths and watchdog expiries to the running job; rejected "
         "rules files must name line and column and evaluate nothing; valgrind memcheck watches the libyaml loader, payload and FFI paths. A second worker "
         "compiled with overflow checks runs the same front ends and, as a crash sweep, the quick workloads of C18 and C13 (thorough: also C01, C03, C10, C15, C11, C17).",
    note="Release profile. Signatures are (kind, in-repo file:line), so a new panic site is a new violation. valgrind runs with --undef-value-errors=no; the Miri loader shard belongs to C11 thorough (DESIGN §10.1).",
    ref="DESIGN.md §6 P-C08")

CHECKS["C01"] = dict(
    technique="runtime monitoring: reference-model monitor (independent interpreter of the documented semantics) over exhaustive and random programs",
    text="Every single-clause program over 44 query shapes (4 with quoted digits-only keys, 14 of them map-key filters `[ keys == | != | in | not in .. ]` with string, regex, mixed-type list and non-string right-hand sides) x some/all x 9 unary and 6 binary operators x all polarity spellings x 14 literals and 4 right-hand queries (3 of them selecting nothing) x 3 documents (with -0.0 / 0.0 under one key) "
         "(~47k, exhaustive in both tiers) and random core-language programs (queries with * [*] [n] [filter] [keys filter], keys taken from variables, blocks, when guards, named references, let "
         "variables incl. `some` bindings, CNF, type blocks) on random documents are evaluated by the real evaluator and by gvlib/refint.py, a ~400-line "
         "interpreter written from the documentation with a different structure (result set -> truth values -> aggregation; no memo, no records); per-rule "
         "and file statuses must be equal and evaluation errors must occur exactly where the reference says the semantics is undefined.",
    note="The reference abstains (UNSPEC, counted; <10% of cases) on the zones listed in DESIGN §5.3; query right-hand sides, functions and parameterised rules are left to C13/C15/C18.",
    ref="DESIGN.md §5, §6 P-C01")

PENDING = {}


# round-12 extensions of the workloads (DESIGN §10.5)
for _pid, _more in {
    "C02": " A payload with two rules entries is run in both orders: roots and exit code follow the worst entry.",
    "C04": " Keys and rule names that begin like a keyword (`origin`, `ORDER`, `order_ok`, `notes`, `inner`, `somekey`, `letter`) start clause lines in every line order of eight groups.",
    "C05": " A rules directory given together with some of the files inside it (json, junit, console) is run repeatedly and the order of the reports compared.",
    "C06": " A rule name defined twice (adjacent and split by another rule) x expectation SKIP / FAIL / PASS x plain / json / junit must be judged as one rule.",
    "C08": " rulegen also receives ill-kinded templates (Type a number / list / map / null, Properties a list / string / null, Resources a list).",
    "C09": " Rules files without named rules (library files) next to skipping / passing files in both orders: the file status follows the compliant / not_compliant / not_applicable lists.",
    "C10": " 35% of the YAML fractions are written without the leading zero (`.75`, `-.25`).",
    "C11": " Quoted number-, bool- and null-looking arguments (`'8080'`, \"true\", `'null'`, `'~'`) go through every single-value short form.",
    "C12": " The `Status =` header of every (rules, data) block of a plain `--show-summary all` batch run must equal the pair's stand-alone status.",
    "C14": " List and struct literals are also laid out comma-first (line break or comment before the comma, comma on its own line).",
    "C15": " 13 built-in functions applied to literals: parameterised call vs in place vs rule-level let vs file-level let.",
    "C17": " 30% of the runs insert an empty-map parameter file at a random position.",
    "C19": " 40% of the list / map property values embed a string with unusual content (runs of blanks, backslash, tab, quotes, non-ASCII).",
}.items():
    CHECKS[_pid]["text"] += _more


# round-13 extensions of the workloads (DESIGN §10.5)
for _pid, _more in {
    "C01": " Filters on scalar elements (`ports[*][ this > 1024 ] <= 65535`, lists and single values, with and without `[*]`, `some`) are checked against an in-place model (520 clauses).",
    "C05": " `test --dir` over five tests files of one rules file (json, junit, console) must list the cases in the same order in every run; the generic console rendering of a plain settings document is repeated as well.",
    "C09": " A failing rule that holds a passing `not <rule>` clause lists its own failing check only (4 clause forms, named rule before / after).",
    "C10": " A third of the documents carry a list of 11-14 elements; a gadget compares captured map keys (known finding: reported with the path of the enclosing map).",
    "C12": " Batches that mix templates and plain settings files: every console block equals (as a multiset of lines) the console output of the pair validated alone.",
    "C18": " json_parse of 13 non-map documents (null, scalars, lists): equal to the document, one value per text.",
}.items():
    CHECKS[_pid]["text"] += _more

for _pid, _more in {
    "C03": " A left side that is one list value (empty list, lists, scalars) x 3 spellings of `in`: every negated spelling flips the verdict.",
    "C08": " 19 built-in function calls x 27 unusual values (empty string, non-ASCII, 5000 characters, malformed escapes, wrong kinds) must end in a result or a diagnostic.",
    "C11": " Empty sequences (`[]`, `[[]]`, `[{}]`) go through every sequence short form.",
    "C17": " 12% of the overlap cases carry a null value under the doubly defined key.",
}.items():
    CHECKS[_pid]["text"] += _more

def main():
    props = [json.loads(l) for l in open(os.path.join(core.VERIF, "properties.jsonl"))]
    checks = []
    na = []
    for p in props:
        pid = p["id"]
        if pid in CHECKS:
            c = CHECKS[pid]
            checks.append({
                "property_id": pid,
                "quick_cmd": "./gv check %s --tier quick" % pid,
                "thorough_cmd": "./gv check %s --tier thorough" % pid,
                "evidence_file": "/verif/evidence/%s.json" % pid,
                "replay_cmd_template": "./gv check %s --replay {path}" % pid,
                "engine": "gv",
                "level_claimed": {"category": c.get("level", "exploration"), "text": c["text"], "design_ref": c["ref"]},
                "level_note": c["note"],
                "technique": c["technique"],
            })
        else:
            na.append({"property_id": pid, "reason": PENDING.get(pid, "check not built yet (work in progress); the property is decidable by this technique family, see DESIGN.md §6")})
    m = {
        "version": 1,
        "setup_cmd": "./gv setup",
        "hooks": {
            "guard": "cargo feature `verif-hooks` of the cfn-guard crate (off by default)",
            "enable": "the harness crate /verif/harness depends on /repo/guard with features=[\"verif-hooks\"]; every check runs `cargo +1.77.2 build --release --offline` of it against /repo's working tree",
            "baseline_off_cmd": "./gv baseline-off",
            "source_commits": ["05e1292", "0f6ba13"],
            "add_only": True,
        },
        "engines": [{"name": "gv", "path": "/verif/gv", "serves_properties": sorted(CHECKS),
                     "kind_free_text": "python orchestrator + rust worker (gv-worker) linking the real cfn-guard library with hooks; monitors are reference models, metamorphic relations and record-tree checkers over observed executions"}],
        "checks": checks,
        "notes": "exit 0 = held on everything explored; exit 1 + VIOLATION line = new violation; exit 2 + INCONCLUSIVE = build failure / observation floor not reached (never a violation). Known findings: /verif/known_findings.json.",
        "not_applicable": na,
    }
    with open(os.path.join(core.VERIF, "MANIFEST.json"), "w") as f:
        json.dump(m, f, indent=1)
    print("MANIFEST.json: %d checks, %d not claimed" % (len(checks), len(na)))


if __name__ == "__main__":
    main()
