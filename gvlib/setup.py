"""setup (offline builds) and the hooks-off baseline of /repo's own test-suite."""
import json
import os
import re
import subprocess
import sys

from . import core

BASELINE = "/root/.vp/BASELINE.json"


def main():
    try:
        core.build(need_cli=True, quiet=False, need_ovf=True)
    except core.Inconclusive as e:
        print("setup failed:", e)
        return 1
    os.makedirs(core.EVIDENCE, exist_ok=True)
    print("setup ok: worker=%s cli=%s" % (core.WORKER_BIN, core.CLI_BIN))
    return 0


def run_repo_tests(repo=None, target_dir=None, env_extra=None):
    """run the repository's own suite (hooks OFF); returns (set passed, set failed, raw)"""
    repo = repo or core.REPO
    env = dict(os.environ)
    env["CARGO_NET_OFFLINE"] = "true"
    if target_dir:
        env["CARGO_TARGET_DIR"] = target_dir
    env.update(env_extra or {})
    cmd = ["cargo", "nextest", "run", "--workspace", "--no-fail-fast", "--offline", "--test-threads", "8",
           "--status-level", "all", "--final-status-level", "none", "--failure-output", "never",
           "--success-output", "never", "--color", "never"]
    p = subprocess.run(cmd, cwd=repo, env=env, stdout=subprocess.PIPE, stderr=subprocess.STDOUT, text=True)
    passed, failed = set(), set()
    for line in p.stdout.splitlines():
        m = re.match(r"\s*(PASS|FAIL|SIGABRT|SIGSEGV|TIMEOUT|LEAK)\s+\[[^\]]*\]\s+(?:\([^)]*\)\s+)?(\S+)\s+(\S+)", line)
        if m:
            name = "%s::%s" % (m.group(2), m.group(3))
            (passed if m.group(1) in ("PASS", "LEAK") else failed).add(name)
    return passed, failed, p.stdout


def baseline_off(repo=None, target_dir=None, env_extra=None):
    with open(BASELINE) as f:
        base = json.load(f)
    want = set(base["stable_pass"])
    passed, failed, raw = run_repo_tests(repo, target_dir, env_extra)
    missing = sorted(want - passed)
    print("baseline (hooks off): %d/%d stable tests pass; %d other pass; %d fail" % (
        len(want & passed), len(want), len(passed - want), len(failed)))
    if missing:
        print("NOT PASSING (in stable baseline):")
        for m in missing[:50]:
            print("  ", m)
        if not passed and not failed:
            print(raw[-3000:])
        return 1
    return 0
