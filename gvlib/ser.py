"""Serialisers with position tracking: one model document -> JSON compact / JSON pretty / YAML flow /
YAML block text, recording for every scalar node the 0-based (line, column) of its first character
(the opening quote for quoted scalars) and for every node its JSON-pointer-like path.

Spelling rule (DESIGN 4.2): a string is written plain only when YAML 1.2 core schema and Guard's typing
cascade agree it is a string; everything else is quoted, so the emitted text means the model document."""
import json
import math
import re

PLAIN_OK = re.compile(r"^[A-Za-z_][A-Za-z0-9_ /.-]*$")
KEYWORDISH = {"true", "false", "null", "yes", "no", "on", "off", "y", "n", "~", "nan", "inf", "infinity", "-inf", ".inf", ".nan"}


def plain_ok(s):
    if not PLAIN_OK.match(s) or s != s.strip() or s.endswith("-") and False:
        return False
    if s.lower() in KEYWORDISH:
        return False
    if " #" in s or s.endswith(":") or ": " in s:
        return False
    try:
        float(s)
        return False
    except ValueError:
        pass
    return True


def fnum(f):
    r = repr(float(f))
    return r


class W:
    def __init__(self):
        self.parts = []
        self.line = 0
        self.col = 0
        self.pos = {}       # path -> (line, col) for scalars
        self.kinds = {}     # path -> spelling kind (plain / single / double / int / float / bool / null)

    def w(self, s):
        self.parts.append(s)
        n = s.count("\n")
        if n:
            self.line += n
            self.col = len(s) - s.rfind("\n") - 1
        else:
            self.col += len(s)

    def mark(self, path, kind):
        self.pos[path] = (self.line, self.col)
        self.kinds[path] = kind

    def text(self):
        return "".join(self.parts)


def jpath(path):
    return "".join("/" + str(p) for p in path)


def dq(s):
    out = []
    for ch in s:
        if ch == '"':
            out.append('\\"')
        elif ch == "\\":
            out.append("\\\\")
        elif ch == "\n":
            out.append("\\n")
        elif ch == "\t":
            out.append("\\t")
        elif ord(ch) < 0x20:
            out.append("\\u%04x" % ord(ch))
        else:
            out.append(ch)
    return '"' + "".join(out) + '"'


def sq(s):
    return "'" + s.replace("'", "''") + "'"


def scalar_yaml(wr, v, path, rng, flow):
    if v is None:
        wr.mark(jpath(path), "null")
        wr.w("null")
    elif v is True or v is False:
        wr.mark(jpath(path), "bool")
        wr.w("true" if v else "false")
    elif isinstance(v, int):
        wr.mark(jpath(path), "int")
        wr.w(str(v))
    elif isinstance(v, float):
        wr.mark(jpath(path), "float")
        t = fnum(v)
        # YAML floats need no leading zero: `.75`, `-.25` (a third of the fractions below one are written that way)
        if rng.random() < 0.35:
            if t.startswith("0."):
                t = t[1:]
            elif t.startswith("-0."):
                t = "-" + t[2:]
        wr.w(t)
    else:
        style = string_style(v, rng)
        wr.mark(jpath(path), style)
        wr.w(spell(v, style))


def string_style(s, rng):
    can_plain = plain_ok(s)
    can_single = "\n" not in s and "\t" not in s and all(ord(c) >= 0x20 for c in s)
    opts = ["double"]
    if can_single:
        opts.append("single")
    if can_plain:
        opts += ["plain", "plain"]
    return rng.choice(opts)


def spell(s, style):
    if style == "plain":
        return s
    if style == "single":
        return sq(s)
    return dq(s)


def key_yaml(k, rng):
    return spell(k, string_style(k, rng))


# ------------------------------------------------------------------ JSON

def to_json(doc, rng, pretty=False):
    wr = W()
    ind = rng.choice([1, 2, 4]) if pretty else 0
    sep_colon = rng.choice([":", ": "]) if not pretty else ": "
    sep_comma = rng.choice([",", ", "]) if not pretty else ","
    # every fourth JSON text spells non-ASCII characters as \uXXXX escapes (characters outside the BMP become surrogate pairs), like json.dumps does by default
    asc = rng.random() < 0.25
    # every fifth JSON text repeats some keys: a shadowed `"k": <other scalar>` member stands before the real one (the last occurrence is
    # the one every JSON reader here keeps - json.loads, serde_json and the YAML loader of validate)
    dup = 0.15 if rng.random() < 0.2 else 0.0

    def nl(depth):
        if pretty:
            wr.w("\n" + " " * (ind * depth))

    def emit(v, path, depth):
        if isinstance(v, dict):
            if not v:
                wr.w("{}")
                return
            wr.w("{")
            for i, (k, x) in enumerate(v.items()):
                if i:
                    wr.w(sep_comma)
                if dup and rng.random() < dup:
                    nl(depth + 1)
                    wr.w(json.dumps(k, ensure_ascii=asc) + sep_colon + rng.choice(['"shadowed"', "424242", "null", '{"shadowed":[1]}', "[]"]) + sep_comma)
                nl(depth + 1)
                wr.w(json.dumps(k, ensure_ascii=asc) + sep_colon)
                emit(x, path + (k,), depth + 1)
            nl(depth)
            wr.w("}")
        elif isinstance(v, list):
            if not v:
                wr.w("[]")
                return
            wr.w("[")
            for i, x in enumerate(v):
                if i:
                    wr.w(sep_comma)
                nl(depth + 1)
                emit(x, path + (i,), depth + 1)
            nl(depth)
            wr.w("]")
        elif isinstance(v, str):
            wr.mark(jpath(path), "double")
            wr.w(json.dumps(v, ensure_ascii=asc))
        elif v is None:
            wr.mark(jpath(path), "null")
            wr.w("null")
        elif isinstance(v, bool):
            wr.mark(jpath(path), "bool")
            wr.w("true" if v else "false")
        elif isinstance(v, int):
            wr.mark(jpath(path), "int")
            wr.w(str(v))
        else:
            wr.mark(jpath(path), "float")
            wr.w(fnum(v))
    emit(doc, (), 0)
    if pretty or rng.random() < 0.5:
        wr.w("\n")
    return wr.text(), wr.pos, wr.kinds


# ------------------------------------------------------------------ YAML flow

def to_yaml_flow(doc, rng):
    wr = W()
    if rng.random() < 0.2:
        wr.w("---\n")
    if rng.random() < 0.3:
        wr.w("# flow style document\n")

    def emit(v, path):
        if isinstance(v, dict):
            wr.w("{")
            for i, (k, x) in enumerate(v.items()):
                if i:
                    wr.w(", ")
                wr.w(key_yaml(k, rng) + ": ")
                emit(x, path + (k,))
            wr.w("}")
        elif isinstance(v, list):
            wr.w("[")
            for i, x in enumerate(v):
                if i:
                    wr.w(", " if rng.random() < 0.85 else ",\n  ")
                emit(x, path + (i,))
            wr.w("]")
        else:
            scalar_yaml(wr, v, path, rng, True)
    emit(doc, ())
    wr.w("\n")
    return wr.text(), wr.pos, wr.kinds


# ------------------------------------------------------------------ YAML block

def to_yaml_block(doc, rng):
    wr = W()
    ind = rng.choice([1, 2, 3, 4])
    if rng.random() < 0.25:
        wr.w("---\n")

    def noise():
        r = rng.random()
        if r < 0.08:
            wr.w("\n")
        elif r < 0.16:
            wr.w("# a comment\n")

    def trailing():
        if rng.random() < 0.1:
            wr.w(" # note")
        wr.w("\n")

    def emit_map(v, path, depth, first_inline=False):
        for i, (k, x) in enumerate(v.items()):
            if not (first_inline and i == 0):
                noise_ok = True
                if noise_ok:
                    noise()
                wr.w(" " * depth)
            wr.w(key_yaml(k, rng) + ":")
            emit_value(x, path + (k,), depth)

    def block_scalar_ok(x):
        return (isinstance(x, str) and x != "" and x.strip("\n") != "" and not x.startswith("\n") and not x.endswith("\n\n") and all(ch == "\n" or ch == "\t" or 0x20 <= ord(ch) < 0x7f or 0xa0 <= ord(ch) < 0x2028 or 0x202a <= ord(ch) < 0xd800 for ch in x)
                and all(not ln.startswith((" ", "\t")) for ln in x.split("\n") if ln))

    def emit_block_scalar(x, path, depth):
        """literal (|, |-, |+) or folded (>-) block scalar; the chomping indicator is the one that reproduces the model string"""
        body = x.rstrip("\n")
        tail = len(x) - len(body)
        folded = "\n" not in body and rng.random() < 0.3 and tail <= 1
        ind_ch = ">" if folded else "|"
        chomp = "-" if tail == 0 else ("" if tail == 1 else "+")
        wr.mark(jpath(path), "folded" if folded else "literal")
        wr.w(ind_ch + chomp)
        if rng.random() < 0.1:
            wr.w(" # block")
        wr.w("\n")
        for ln in body.split("\n"):
            wr.w((" " * (depth + ind) + ln if ln else "") + "\n")
        if chomp == "+":
            wr.w("\n" * (tail - 1))

    def emit_value(x, path, depth):
        if block_scalar_ok(x) and rng.random() < (0.6 if "\n" in x else 0.12):
            wr.w(" ")
            emit_block_scalar(x, path, depth)
            return
        if isinstance(x, dict):
            if not x:
                wr.w(" {}")
                trailing()
            else:
                wr.w("\n")
                emit_map(x, path, depth + ind)
        elif isinstance(x, list):
            if not x:
                wr.w(" []")
                trailing()
            else:
                wr.w("\n")
                emit_list(x, path, depth + (ind if rng.random() < 0.7 else 0))
        else:
            wr.w(" ")
            scalar_yaml(wr, x, path, rng, False)
            trailing()

    def emit_list(v, path, depth):
        for i, x in enumerate(v):
            noise()
            wr.w(" " * depth + "-")
            if isinstance(x, dict) and x:
                wr.w(" ")
                emit_map(x, path + (i,), depth + 2, first_inline=True)
            elif isinstance(x, list) and x:
                # nested sequence on the same line: "- - a"
                wr.w("\n")
                emit_list(x, path + (i,), depth + 2)
            elif isinstance(x, dict):
                wr.w(" {}")
                trailing()
            elif isinstance(x, list):
                wr.w(" []")
                trailing()
            elif block_scalar_ok(x) and rng.random() < (0.6 if "\n" in x else 0.12):
                wr.w(" ")
                emit_block_scalar(x, path + (i,), depth + 1)
            else:
                wr.w(" ")
                scalar_yaml(wr, x, path + (i,), rng, False)
                trailing()
    if isinstance(doc, dict) and doc:
        emit_map(doc, (), 0)
    elif isinstance(doc, list) and doc:
        emit_list(doc, (), 0)
    else:
        if isinstance(doc, dict):
            wr.w("{}\n")
        elif isinstance(doc, list):
            wr.w("[]\n")
        else:
            scalar_yaml(wr, doc, (), rng, False)
            wr.w("\n")
    return wr.text(), wr.pos, wr.kinds


STYLES = {
    "json-compact": lambda d, r: to_json(d, r, False),
    "json-pretty": lambda d, r: to_json(d, r, True),
    "yaml-flow": to_yaml_flow,
    "yaml-block": to_yaml_block,
}


def model_nodes(doc):
    """path -> (type name, value) for every node"""
    out = {}

    def walk(v, path):
        p = jpath(path)
        if isinstance(v, dict):
            out[p] = ("map", list(v.keys()))
            for k, x in v.items():
                walk(x, path + (k,))
        elif isinstance(v, list):
            out[p] = ("list", len(v))
            for i, x in enumerate(v):
                walk(x, path + (i,))
        elif v is None:
            out[p] = ("null", None)
        elif isinstance(v, bool):
            out[p] = ("bool", v)
        elif isinstance(v, int):
            out[p] = ("int", v)
        elif isinstance(v, float):
            out[p] = ("float", repr(v))
        else:
            out[p] = ("string", v)
    walk(doc, ())
    return out
