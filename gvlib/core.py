"""Core infrastructure: builds, worker processes, sharding, verdicts, evidence.

Everything here is plain Python 3 stdlib.
"""
import fcntl
import json
import multiprocessing as mp
import os
import random
import select
import shutil
import signal
import subprocess
import sys
import time
import traceback
from collections import Counter

VERIF = os.path.dirname(os.path.dirname(os.path.abspath(__file__)))
REPO = os.environ.get("GV_REPO", "/repo")
TARGET = os.path.join(VERIF, "target")
# GV_WORKER_BIN: run the monitors on another build of the same worker (coverage measurement, ./cov.sh); registered commands never set it
WORKER_BIN = os.environ.get("GV_WORKER_BIN") or os.path.join(TARGET, "rel", "release", "gv-worker")
CLI_BIN = os.environ.get("GV_CLI_BIN") or os.path.join(TARGET, "cli", "release", "cfn-guard")
# same worker, optimised, but with arithmetic-overflow checks compiled in (what a debug build would panic on and a release build silently wraps)
OVF_BIN = os.path.join(TARGET, "ovf", "release", "gv-worker")
SCRATCH = os.path.join(TARGET, "scratch")
EVIDENCE = os.path.join(VERIF, "evidence")
REPLAY = os.path.join(VERIF, "replay")
KNOWN = os.path.join(VERIF, "known_findings.json")
NPROC = min(16, os.cpu_count() or 4)
CARGO = ["cargo", "+1.77.2"]


def log(*a):
    print(*a, file=sys.stderr, flush=True)


class Inconclusive(Exception):
    pass


# --------------------------------------------------------------------------- build

def _cargo_env():
    env = dict(os.environ)
    env["CARGO_NET_OFFLINE"] = "true"
    env.pop("RUSTFLAGS", None)
    return env


def build(need_cli=False, quiet=True, need_ovf=False):
    """(Re)build the worker (hooks on) and optionally the plain CLI from /repo's
    working tree. cargo's fingerprinting makes this a no-op when nothing changed.
    A build failure is INCONCLUSIVE, never a violation."""
    os.makedirs(TARGET, exist_ok=True)
    lock = open(os.path.join(TARGET, ".lock"), "w")
    fcntl.flock(lock, fcntl.LOCK_EX)
    try:
        t0 = time.time()
        harness = os.path.join(VERIF, "harness")
        if REPO != "/repo":
            # checks normally rebuild from /repo; GV_REPO=<dir> (background sweeps on a snapshot) gets a derived harness
            harness = os.path.join(TARGET, "harness-alt")
            shutil.rmtree(harness, ignore_errors=True)
            shutil.copytree(os.path.join(VERIF, "harness"), harness, ignore=shutil.ignore_patterns("target"))
            for rel in ("Cargo.toml", os.path.join("src", "main.rs")):
                fp = os.path.join(harness, rel)
                txt = open(fp).read().replace('"/repo/', '"%s/' % REPO)
                open(fp, "w").write(txt)
        cmd = CARGO + ["build", "--release", "--offline", "--manifest-path", os.path.join(harness, "Cargo.toml")]
        env = _cargo_env()
        env["CARGO_TARGET_DIR"] = os.path.join(TARGET, "rel")
        p = subprocess.run(cmd, env=env, stdout=subprocess.PIPE, stderr=subprocess.STDOUT, text=True)
        if p.returncode != 0:
            log(p.stdout[-4000:])
            raise Inconclusive("worker build failed (compile error in /repo or harness)")
        if need_cli:
            cmd = CARGO + ["build", "--release", "--offline", "--manifest-path",
                           os.path.join(REPO, "Cargo.toml"), "-p", "cfn-guard", "--bin", "cfn-guard"]
            env["CARGO_TARGET_DIR"] = os.path.join(TARGET, "cli")
            p = subprocess.run(cmd, env=env, stdout=subprocess.PIPE, stderr=subprocess.STDOUT, text=True)
            if p.returncode != 0:
                log(p.stdout[-4000:])
                raise Inconclusive("cli build failed")
        if need_ovf:
            cmd = CARGO + ["build", "--release", "--offline", "--manifest-path", os.path.join(harness, "Cargo.toml")]
            env["CARGO_TARGET_DIR"] = os.path.join(TARGET, "ovf")
            env["CARGO_PROFILE_RELEASE_OVERFLOW_CHECKS"] = "true"
            p = subprocess.run(cmd, env=env, stdout=subprocess.PIPE, stderr=subprocess.STDOUT, text=True)
            if p.returncode != 0:
                log(p.stdout[-4000:])
                raise Inconclusive("overflow-checked worker build failed")
        if not quiet:
            log("build ok in %.1fs" % (time.time() - t0))
    finally:
        fcntl.flock(lock, fcntl.LOCK_UN)
        lock.close()


# --------------------------------------------------------------------------- worker

class Worker:
    """One gv-worker subprocess, synchronous request/response, crash attribution,
    watchdog."""

    def __init__(self, binary=None, timeout=20.0, wrapper=None, env=None):
        self.binary = binary or WORKER_BIN
        self.timeout = timeout
        self.wrapper = wrapper or []
        self.env = env
        self.p = None
        self.nid = 0
        self.crashes = 0
        self.restarts = 0
        self.buf = b""

    def _start(self):
        os.makedirs(SCRATCH, exist_ok=True)
        r, w = os.pipe()
        self.errpath = os.path.join(SCRATCH, "werr-%d-%d.txt" % (os.getpid(), id(self)))
        errf = open(self.errpath, "wb")
        env = dict(self.env or os.environ)
        env.setdefault("RUST_BACKTRACE", "0")
        self.p = subprocess.Popen(self.wrapper + [self.binary, str(w), SCRATCH],
                                  stdin=subprocess.PIPE, stdout=subprocess.DEVNULL,
                                  stderr=errf, pass_fds=[w], env=env)
        errf.close()
        os.close(w)
        self.rfd = r
        self.buf = b""
        self.restarts += 1

    def close(self):
        if self.p is not None:
            try:
                self.p.stdin.close()
            except Exception:
                pass
            try:
                self.p.wait(timeout=5)
            except Exception:
                self.p.kill()
                self.p.wait()
            try:
                os.close(self.rfd)
            except Exception:
                pass
            try:
                os.unlink(self.errpath)
            except Exception:
                pass
            self.p = None

    def _readline(self, deadline):
        while b"\n" not in self.buf:
            left = deadline - time.time()
            if left <= 0:
                return None
            r, _, _ = select.select([self.rfd], [], [], min(left, 1.0))
            if not r:
                continue
            chunk = os.read(self.rfd, 1 << 16)
            if not chunk:
                return b""
            self.buf += chunk
        line, self.buf = self.buf.split(b"\n", 1)
        return line

    def _stderr_tail(self):
        try:
            with open(self.errpath, "rb") as f:
                data = f.read()
            return data[-600:].decode("utf-8", "replace")
        except Exception:
            return ""

    def run(self, job, timeout=None):
        """returns result dict; r in ok|err|panic|clap|bad|crash|hang"""
        if self.p is None or self.p.poll() is not None:
            if self.p is not None:
                self.close()
            self._start()
        self.nid += 1
        job = dict(job)
        job["id"] = self.nid
        data = (json.dumps(job) + "\n").encode()
        try:
            self.p.stdin.write(data)
            self.p.stdin.flush()
        except BrokenPipeError:
            pass
        deadline = time.time() + (timeout or self.timeout)
        began = False
        while True:
            line = self._readline(deadline)
            if line is None:
                # watchdog
                self.p.kill()
                self.p.wait()
                tail = self._stderr_tail()
                self.close()
                return {"r": "hang", "code": None, "out": "", "err": tail, "began": began}
            if line == b"":
                self.p.wait()
                rc = self.p.returncode
                tail = self._stderr_tail()
                self.close()
                self.crashes += 1
                sig = -rc if rc is not None and rc < 0 else None
                kind = "crash"
                return {"r": kind, "code": rc, "signal": sig, "out": "", "err": tail, "began": began}
            try:
                msg = json.loads(line)
            except Exception:
                continue
            if "begin" in msg:
                began = True
                continue
            if msg.get("id") == self.nid:
                return msg


def crash_signature(res):
    """stable signature for panics/crashes: kind + in-repo location"""
    r = res.get("r")
    if r == "panic":
        loc = res.get("loc", "")
        loc = loc.replace(REPO + "/", "")
        return "panic@" + loc
    if r == "crash":
        err = res.get("err", "")
        if "overflowed its stack" in err:
            return "stack-overflow"
        if res.get("signal"):
            return "signal-%s" % res["signal"]
        return "exit-%s" % res.get("code")
    if r == "hang":
        return "hang"
    return None


# --------------------------------------------------------------------------- CLI processes

def run_cli(argv, stdin=None, env=None, cwd=None, timeout=60):
    e = dict(os.environ) if env is None else env
    try:
        p = subprocess.run([CLI_BIN] + list(argv), input=stdin, env=e, cwd=cwd,
                           stdout=subprocess.PIPE, stderr=subprocess.PIPE, timeout=timeout)
        return p.returncode, p.stdout, p.stderr
    except subprocess.TimeoutExpired:
        return None, b"", b"timeout"


# --------------------------------------------------------------------------- sharding

def _shard_entry(args):
    func, shard, nshards, seed, tier, extra = args
    signal.signal(signal.SIGINT, signal.SIG_IGN)
    w = Worker(binary=extra.get("worker_bin"), timeout=extra.get("timeout", 20.0))
    res = ShardResult()
    try:
        func(Ctx(w, shard, nshards, seed, tier, res, extra))
    except Inconclusive as e:
        res.errors.append("inconclusive: %s" % e)
    except Exception:
        res.errors.append("shard %d exception:\n%s" % (shard, traceback.format_exc()))
    finally:
        w.close()
    res.counts["worker_restarts"] += max(0, w.restarts - 1)
    return res


class ShardResult:
    def __init__(self):
        self.cases = 0
        self.violations = []      # dicts: sig, what, replay
        self.inconclusive = Counter()
        self.counts = Counter()
        self.distinct = set()
        self.samples = []
        self.errors = []
        self.extra = {}

    def merge(self, o):
        self.cases += o.cases
        self.violations.extend(o.violations)
        self.inconclusive.update(o.inconclusive)
        self.counts.update(o.counts)
        self.distinct |= o.distinct
        for s in o.samples:
            if len(self.samples) < 12:
                self.samples.append(s)
        self.errors.extend(o.errors)
        for k, v in o.extra.items():
            if isinstance(v, set):
                self.extra.setdefault(k, set()).update(v)
            elif isinstance(v, Counter):
                self.extra.setdefault(k, Counter()).update(v)
            elif isinstance(v, list):
                self.extra.setdefault(k, []).extend(v)
            else:
                self.extra[k] = v


class Ctx:
    def __init__(self, worker, shard, nshards, seed, tier, res, extra):
        self.w = worker
        self.shard = shard
        self.nshards = nshards
        self.seed = seed
        self.tier = tier
        self.res = res
        self.extra = extra
        self.quick = tier == "quick"

    def rng(self, tag=""):
        return random.Random("%s:%s:%s:%s" % (self.extra.get("prop", ""), self.seed, self.shard, tag))

    def violation(self, sig, what, replay):
        # keep at most 40 per shard, but always count
        self.res.counts["violations_total"] += 1
        self.res.counts["viol:" + sig] += 1
        if len(self.res.violations) < 40 or not any(v["sig"] == sig for v in self.res.violations):
            self.res.violations.append({"sig": sig, "what": what, "replay": replay})

    def inconclusive(self, why):
        self.res.inconclusive[why] += 1

    def sample(self, s, limit=3):
        if len(self.res.samples) < limit:
            self.res.samples.append(s)

    def mine(self, i):
        """round-robin ownership of enumerated case i"""
        return i % self.nshards == self.shard


def run_shards(func, seed, tier, prop, nshards=None, extra=None):
    nshards = nshards or NPROC
    extra = dict(extra or {})
    extra["prop"] = prop
    args = [(func, i, nshards, seed, tier, extra) for i in range(nshards)]
    total = ShardResult()
    if nshards == 1 or os.environ.get("GV_SERIAL"):
        for a in args:
            total.merge(_shard_entry(a))
        return total
    ctx = mp.get_context("fork")
    with ctx.Pool(nshards) as pool:
        for r in pool.imap_unordered(_shard_entry, args):
            total.merge(r)
    return total


# --------------------------------------------------------------------------- verdicts

def load_known():
    try:
        with open(KNOWN) as f:
            return json.load(f)
    except FileNotFoundError:
        return {"findings": [], "fixed": []}


def finish(prop, tier, seed, res, t0, rule, floor=None, extra_cov=None, assumptions=None,
           exhaustive=False, level="exploration"):
    """Print verdict lines, write evidence, return exit code.
    floor: dict name -> (observed, minimum)"""
    os.makedirs(EVIDENCE, exist_ok=True)
    known = load_known()
    known_sigs = {k["signature"]: k for k in known.get("findings", []) if k.get("property") == prop}
    new = []
    seen_known = {}
    for v in res.violations:
        if v["sig"] in known_sigs:
            seen_known.setdefault(v["sig"], v)
        else:
            new.append(v)
    rc = 0
    for sig, v in sorted(seen_known.items()):
        print("KNOWN-FINDING: property=%s %s [%s]" % (prop, known_sigs[sig].get("what", v["what"]), sig))
    replay_paths = []
    if new:
        d = os.path.join(REPLAY, prop)
        os.makedirs(d, exist_ok=True)
        bysig = {}
        for v in new:
            bysig.setdefault(v["sig"], v)
        for n, (sig, v) in enumerate(sorted(bysig.items())):
            if n >= 10:
                break
            path = os.path.join(d, "%s-%s-%d.json" % (tier, seed, n))
            with open(path, "w") as f:
                json.dump({"property": prop, "seed": seed, "tier": tier, "signature": sig,
                           "what": v["what"], "case": v["replay"]}, f, indent=1, default=str)
            replay_paths.append(path)
            print("VIOLATION property=%s replay=%s" % (prop, path))
            print("  signature=%s :: %s" % (sig, v["what"][:400]))
        rc = 1
    floor_fail = []
    for name, (obs, mn) in (floor or {}).items():
        if obs < mn:
            floor_fail.append("%s=%s<%s" % (name, obs, mn))
    if res.errors:
        for e in res.errors[:5]:
            log("HARNESS-ERROR:", e[:2000])
    verdict = "violated" if rc == 1 else "held"
    if rc == 0 and (floor_fail or res.errors):
        verdict = "inconclusive"
        rc = 2
        print("INCONCLUSIVE property=%s %s" % (prop, "; ".join(floor_fail + [e.splitlines()[-1] for e in res.errors[:3]])))
    distinct = len(res.distinct)
    cov = {
        "evaluations": int(res.cases),
        "distinct_nontrivial": int(distinct),
        "rule": rule,
        "samples": res.samples[:8] if res.samples else ["<none>"],
        "exhaustive": bool(exhaustive),
        "verdict": verdict,
        "inconclusive_cases": dict(res.inconclusive),
        "counts": {k: v for k, v in sorted(res.counts.items())},
        "floor": {k: {"observed": o, "minimum": m} for k, (o, m) in (floor or {}).items()},
        "known_findings_seen": sorted(seen_known),
        "new_violation_signatures": sorted({v["sig"] for v in new}),
    }
    for k, v in (extra_cov or {}).items():
        cov[k] = v
    for k, v in res.extra.items():
        if isinstance(v, set):
            cov[k] = sorted(v)[:200]
        elif isinstance(v, Counter):
            cov[k] = dict(v.most_common(200))
        else:
            cov[k] = v
    ev = {
        "property_id": prop,
        "tier": tier,
        "seed": int(seed),
        "level": level,
        "coverage": cov,
        "assumptions": assumptions or [],
        "wall_s": round(time.time() - t0, 2),
        "violations": len({v["sig"] for v in new}),
    }
    with open(os.path.join(EVIDENCE, "%s.json" % prop), "w") as f:
        json.dump(ev, f, indent=1, default=str)
    print("%s %s tier=%s seed=%s cases=%d distinct=%d inconclusive=%d known=%d new=%d wall=%.1fs" % (
        prop, verdict.upper(), tier, seed, res.cases, distinct, sum(res.inconclusive.values()),
        len(seen_known), len({v['sig'] for v in new}), time.time() - t0))
    return rc
