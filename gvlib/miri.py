"""Miri shard: the libyaml based `validate` loader (the only first-party unsafe code) interpreted by Miri on a
batch of documents. Whole-CLI Miri is infeasible (see DESIGN 7); the loader-only entry /verif/miri-harness is.
A Miri diagnostic (undefined behaviour, data race, leak) is returned as a report; build problems are inconclusive."""
import json
import os
import re
import subprocess
import time

from . import core, vendor


def run_miri(docs, nproc=8, timeout=1500):
    """returns dict(status='ok'|'unavailable', reports=[...], docs=n, loaded=n, rejected=n, wall_s=..)"""
    t0 = time.time()
    if not vendor.main():
        return {"status": "unavailable", "why": "vendor directory incomplete", "reports": [], "docs": 0}
    env = dict(os.environ)
    env["CARGO_NET_OFFLINE"] = "true"
    env["CARGO_TARGET_DIR"] = os.path.join(core.TARGET, "miri")
    env["RUSTFLAGS"] = "-A dangerous_implicit_autorefs -A warnings"
    env["MIRIFLAGS"] = "-Zmiri-disable-isolation"
    hdir = os.path.join(core.VERIF, "miri-harness")
    shutil_lock = os.path.join(hdir, "Cargo.lock")
    if not os.path.exists(shutil_lock):
        open(shutil_lock, "w").write(open(os.path.join(core.REPO, "Cargo.lock")).read())
    b = subprocess.run(["cargo", "+nightly", "miri", "run", "--", "/dev/null"], cwd=hdir, env=env, stdout=subprocess.PIPE, stderr=subprocess.STDOUT, text=True, timeout=1200)
    if "MIRI-LOADER" not in b.stdout:
        return {"status": "unavailable", "why": "miri build/run failed: " + b.stdout[-400:], "reports": [], "docs": 0}
    os.makedirs(core.SCRATCH, exist_ok=True)
    chunks = [docs[i::nproc] for i in range(nproc)]
    procs = []
    for i, ch in enumerate(chunks):
        if not ch:
            continue
        p = os.path.join(core.SCRATCH, "miri-docs-%d-%d.json" % (os.getpid(), i))
        json.dump(ch, open(p, "w"))
        procs.append((p, len(ch), subprocess.Popen(["cargo", "+nightly", "miri", "run", "--", p], cwd=hdir, env=env, stdout=subprocess.PIPE, stderr=subprocess.STDOUT, text=True)))
    reports, ndocs, loaded, rejected = [], 0, 0, 0
    for p, n, pr in procs:
        try:
            out, _ = pr.communicate(timeout=timeout)
        except subprocess.TimeoutExpired:
            pr.kill()
            out = "TIMEOUT"
        try:
            os.unlink(p)
        except OSError:
            pass
        m = re.search(r"MIRI-LOADER docs=(\d+) ok=(\d+) err=(\d+)", out)
        if m:
            ndocs += int(m.group(1))
            loaded += int(m.group(2))
            rejected += int(m.group(3))
        for blk in re.finditer(r"error: (Undefined Behavior|unsupported operation|memory leaked|Data race)[^\n]*\n(?:.*\n){0,25}", out):
            frames = [l.strip() for l in blk.group(0).split("\n") if "/repo/" in l or "guard/src" in l]
            reports.append({"kind": blk.group(1), "first_line": blk.group(0).split("\n")[0][:200], "frame": frames[0][:200] if frames else ""})
        if not m and "error:" not in out and out != "TIMEOUT":
            reports.append({"kind": "abnormal-exit", "first_line": out[-200:], "frame": ""})
    return {"status": "ok", "reports": reports, "docs": ndocs, "loaded": loaded, "rejected": rejected, "wall_s": round(time.time() - t0, 1)}
