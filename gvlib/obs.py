"""Readers for the tool's outputs (independent parsers: python json / xml / regex)."""
import json


def report_statuses(report):
    """structured FileReport (dict) -> {rule_name: [statuses]} (multimap, names may repeat)"""
    out = {}
    for n in report.get("compliant", []):
        out.setdefault(n, []).append("PASS")
    for n in report.get("not_applicable", []):
        out.setdefault(n, []).append("SKIP")
    for e in report.get("not_compliant", []):
        r = e.get("Rule") or {}
        out.setdefault(r.get("name"), []).append("FAIL")
    return out


def rc_statuses(res):
    """run_checks(verbose=False) result -> ('ok', {name: status}, file_status) | ('err', msg, None)
    For a name reported more than once the statuses are joined with '+'."""
    if res.get("r") != "ok":
        return res.get("r"), res.get("err", ""), None
    out = res.get("out", "")
    if not out.strip():
        return "empty", "", None
    rep = json.loads(out)
    if isinstance(rep, list):
        rep = rep[0]
    m = report_statuses(rep)
    return "ok", {k: "+".join(v) for k, v in m.items()}, rep.get("status")


def strip_default(name):
    """'rules/default' -> 'default'"""
    if name and name.endswith("/default"):
        return "default"
    return name


def tree_rule_statuses(tree):
    """verbose EventRecord tree -> list of (rule name, status) for top-level RuleCheck records"""
    out = []
    for ch in tree.get("children", []):
        c = ch.get("container") or {}
        if "RuleCheck" in c:
            out.append((c["RuleCheck"]["name"], c["RuleCheck"]["status"]))
    return out


def container_kind(node):
    c = node.get("container")
    if c is None:
        return None, None
    if isinstance(c, str):
        return c, None
    (k, v), = c.items()
    return k, v


def node_status(node):
    k, v = container_kind(node)
    if k is None:
        return None
    if k in ("FileCheck", "RuleCheck"):
        return v["status"]
    if k in ("RuleCondition", "TypeCondition", "TypeBlock", "Filter", "WhenCondition"):
        return v
    if k == "TypeCheck":
        return v["block"]["status"]
    if k in ("WhenCheck", "Disjunction", "BlockGuardCheck", "GuardClauseBlockCheck"):
        return v["status"]
    if k == "ClauseValueCheck":
        if v == "Success":
            return "PASS"
        if isinstance(v, dict):
            (ck, cv), = v.items()
            if ck == "NoValueForEmptyCheck":
                return "FAIL"
            if ck == "Unary":
                return cv["value"]["status"]
            return cv.get("status")
    return None
