"""C17 - input parameters are merged into the data without loss or silent override.

A document M is split at random into data D and 1..3 parameter files with disjoint top-level keys;
`validate -r R -d D -i P1 .. -i Pn` (every order of the -i arguments; plain and structured; several data
files; payload) must give exactly the verdicts and exit class of `validate -r R -d M`. Rules read keys of
both sides by name AND iterate the merged root map (`this.*`, `[ keys ... ]`). With an overlapping
top-level key the run must fail with an error (exit not 0 / 19, no verdict) in both modes.
"""
import itertools
import json
import time

from .. import core, gen, obs

VALS = [1, 2, 5, "x", "y", "zz", True, False, [1, 2], {"q": 1}]


def make_case(rng):
    nkeys = rng.randint(3, 7)
    keys = rng.sample(["alpha", "beta", "gamma", "delta", "eps", "zeta", "eta", "theta"], nkeys)
    M = {k: rng.choice(VALS) for k in keys}
    nparams = rng.randint(1, 3)
    # random split; sizes vary so that a later source can be bigger than everything merged before it
    owners = [rng.randrange(nparams + 1) for _ in keys]
    if 0 not in owners:
        owners[rng.randrange(nkeys)] = 0
    for p in range(1, nparams + 1):
        if p not in owners:
            owners[rng.randrange(nkeys)] = p
    if 0 not in owners:
        owners[0] = 0
    parts = [{k: M[k] for k, o in zip(keys, owners) if o == p} for p in range(nparams + 1)]
    parts = [p for p in parts[:1]] + [p for p in parts[1:] if p]
    if not parts[0]:
        return make_case(rng)
    D, P = parts[0], parts[1:]
    if not P:
        return make_case(rng)
    lines = []
    n = 0
    for k in rng.sample(keys, min(4, nkeys)):
        v = M[k] if rng.random() < 0.6 else rng.choice(VALS)
        lines.append("rule named%d {\n    %s == %s\n}" % (n, k, gen.glit(v)))
        n += 1
    lines.append("rule exists_all {\n" + "".join("    %s exists\n" % k for k in keys) + "}")
    tv = rng.choice(VALS[:6])
    lines.append("rule some_value {\n    some this.* == %s\n}" % gen.glit(tv))
    lines.append("rule no_value {\n    this.* != %s\n}" % gen.glit(rng.choice(VALS[:6])))
    kk = rng.choice(keys)
    lines.append("rule by_key {\n    this[ keys == %s ] == %s\n}" % (gen.glit(kk), gen.glit(M[kk] if rng.random() < 0.7 else rng.choice(VALS))))
    lines.append("rule key_in {\n    this[ keys in [%s] ] exists\n}" % ", ".join(gen.glit(k) for k in rng.sample(keys, min(2, nkeys))))
    lines.append("rule key_regex {\n    this[ keys == /^%s/ ] !empty\n}" % kk[:2])
    lines.append("rule nkeys {\n    let vals = this.*\n    %%vals !empty\n    some %%vals == %s\n}" % gen.glit(M[rng.choice(keys)]))
    if rng.random() < 0.35:
        # a rules file that never spells a key of the merged document: it only walks the root map and counts its entries
        pk = rng.choice([k for p_ in P for k in p_] or keys)
        scal = [v for v in M.values() if isinstance(v, (int, str)) and not isinstance(v, bool)]
        lines = ["rule count_entries {\n    let n = count(this.*)\n    %%n == %d\n}" % len(M),
                 "rule some_value {\n    some this.* == %s\n}" % gen.glit(M[pk] if not isinstance(M[pk], (list, dict)) else (scal[0] if scal else 1)),
                 "rule walk_keys {\n    this[ keys == /./ ] !empty\n    let vals = this.*\n    %vals !empty\n}"]
    return M, D, P, "\n".join(lines) + "\n"


def statuses_of(res, structured):
    if res.get("r") != "ok":
        return None
    try:
        if structured:
            reps = json.loads(res["out"])
        else:
            from .c12 import parse_docs
            reps = parse_docs(res["out"])
        return [obs.report_statuses(r) for r in reps]
    except (ValueError, TypeError):
        return None


def shard(ctx):
    rng = ctx.rng("c17")
    n = 45 if ctx.quick else 3000
    for t in range(n):
        M, D, P, rtext = make_case(rng)
        if rng.random() < 0.3:
            # a parameter file that is an empty map (an intentionally empty overrides file), at any position: it contributes nothing and loses nothing
            P = list(P)
            P.insert(rng.randrange(len(P) + 1), {})
            ctx.res.counts["runs_with_empty_map_parameter_file"] += 1
        overlap = rng.random() < 0.25
        which = None
        Pm = [dict(p) for p in P]
        Dm = dict(D)
        if overlap:
            # duplicate one key into a second source (same or different value)
            srcs = [Dm] + Pm
            a, b = rng.sample(range(len(srcs)), 2)
            if not srcs[a]:
                continue
            k = rng.choice(list(srcs[a]))
            how = rng.random()
            if how < 0.12:
                # one of the two sources gives the key the value null (a placeholder in a defaults file): still the same key twice
                srcs[b][k] = srcs[a][k]
                srcs[rng.choice([a, b])][k] = None
                ctx.res.counts["overlap_with_null_value"] += 1
            elif how < 0.25:
                srcs[b][k] = srcs[a][k]
            elif how < 0.6:
                srcs[b][k] = rng.choice(VALS)
            else:
                # both sources give the key a map, with disjoint inner keys (nothing inside clashes): still the same top-level key twice
                srcs[a][k] = {"inner_a": 1, "shared_name": {"x": 1}}
                srcs[b][k] = {"inner_b": [2], "other": {"y": 2}}
                ctx.res.counts["overlap_with_map_values"] += 1
            which = "data-vs-param" if 0 in (a, b) else "param-vs-param"
        extra_data = rng.random() < 0.3
        fl = {"r.guard": rtext, "m.json": json.dumps(M), "d.json": json.dumps(Dm)}
        # where the parameter files live: flat distinct names, the same base name in different directories, or one directory given to -i
        layout = rng.choice(["flat", "flat", "same-basename", "directory"])
        ctx.res.counts["param-layout:" + layout] += 1
        ipaths = []
        sl = {}
        for i, p in enumerate(Pm):
            as_json = rng.random() < 0.5
            rel = {"flat": "p%d.json" % i, "same-basename": "env%d/params.%s" % (i, "json" if as_json else "yaml"), "directory": "pdir/e%d/params.json" % i}[layout]
            ipaths.append(rel)
            content_ = json.dumps(p) if as_json or not p else "".join("%s: %s\n" % (k, json.dumps(v)) for k, v in p.items())
            if rng.random() < 0.3:
                # the parameter file is a symbolic link to a regular file kept elsewhere (shared parameter sets are commonly linked in)
                fl["store/real%d.data" % i] = content_
                sl[rel] = "store/real%d.data" % i
                ctx.res.counts["param_files_as_symlinks"] += 1
            else:
                fl[rel] = content_

        if layout == "directory":
            # files that are not data files live next to the parameter files and must simply be ignored, wherever they sort
            for stray in rng.sample(["pdir/00_notes.txt", "pdir/e0/README.md", "pdir/.DS_Store", "pdir/e1/a.txt", "pdir/zz.bak", "pdir/e0/.gitkeep"], rng.randint(0, 3)):
                fl[stray] = "not: [a, parameter, file\n"
                ctx.res.counts["stray_files_in_param_dir"] += 1

        # an --input-parameters argument that exists but contributes nothing (a directory with only notes in it, a file of another kind),
        # anywhere in the list: the parameters of the other arguments still count
        barren = rng.choice([None, None, "barren_notes", "barren_notes/README.txt", "barren_nested"]) if layout != "directory" else None
        if barren:
            fl["barren_notes/README.txt"] = "parameters live elsewhere\n"
            fl["barren_nested/deeper/notes.md"] = "# nothing\n"
            ctx.res.counts["runs_with_barren_parameter_argument"] += 1

        def iargs_for(order):
            if layout == "directory":
                return ["-i", "{S}/pdir"]
            ia = [x for i in order for x in ("-i", "{S}/" + ipaths[i])]
            if barren:
                pos_ = 2 * ((sum(order) + len(order) + len(barren)) % (len(order) + 1))
                ia[pos_:pos_] = ["-i", "{S}/" + barren]
            return ia
        if extra_data:
            D2 = dict(Dm)
            kk = rng.choice(list(D2))
            D2[kk] = rng.choice(VALS)
            M2 = dict(M)
            M2[kk] = D2[kk]
            fl["d2.json"] = json.dumps(D2)
            fl["m2.json"] = json.dumps(M2)
        orders = list(itertools.permutations(range(len(Pm))))
        for structured in (False, True):
            tail = ["--structured", "-S", "none", "-o", "json"] if structured else ["-S", "none", "-o", "json"]
            mode = "structured" if structured else "plain"
            ref = ctx.w.run({"k": "cli", "argv": ["validate", "-r", "{S}/r.guard", "-d", "{S}/m.json"] + (["-d", "{S}/m2.json"] if extra_data else []) + tail, "files": fl, "symlinks": sl})
            ref_st = statuses_of(ref, structured)
            if ref_st is None:
                ctx.inconclusive("reference-error-or-crash")
                continue
            for order in orders:
                iargs = iargs_for(order)
                r = ctx.w.run({"k": "cli", "argv": ["validate", "-r", "{S}/r.guard", "-d", "{S}/d.json"] + (["-d", "{S}/d2.json"] if extra_data else []) + iargs + tail, "files": fl, "symlinks": sl})
                ctx.res.cases += 1
                case = {"rules": rtext, "files": fl, "symlinks": sl, "order": list(order), "structured": structured, "overlap": overlap, "extra_data": extra_data, "iargs": iargs}
                ctx.res.counts["%s:%s" % (mode, "overlap" if overlap else "disjoint")] += 1
                if overlap:
                    sig = core.crash_signature(r)
                    if sig:
                        ctx.violation("overlap:%s:%s:crash:%s" % (mode, which, sig), "conflicting top-level key makes the tool crash (%s) instead of reporting an error" % sig, case)
                    elif r.get("r") == "ok":
                        ctx.violation("overlap:%s:%s:silently-accepted" % (mode, which), "conflicting top-level key accepted silently: exit %s" % r.get("code"), case)
                    elif r.get("out", "").strip():
                        ctx.violation("overlap:%s:%s:verdict-printed" % (mode, which), "error exit but a verdict was printed", case)
                    else:
                        ctx.res.distinct.add((mode, "overlap-error", which))
                    continue
                if r.get("r") != "ok":
                    sig = core.crash_signature(r)
                    if sig:
                        ctx.inconclusive("crash")
                    else:
                        ctx.violation("disjoint:%s:error" % mode, "disjoint parameters rejected: %s" % r.get("emsg", "")[:200], case)
                    continue
                st = statuses_of(r, structured)
                if st != ref_st:
                    ctx.violation("disjoint:%s:verdicts-differ%s" % (mode, ":several-data-files" if extra_data else ""),
                                  "verdicts with -i %s differ from the pre-merged document: %s vs %s" % (list(order), st, ref_st), case)
                elif r["code"] != ref["code"]:
                    ctx.violation("disjoint:%s:exit" % mode, "exit %s vs %s for the pre-merged document" % (r["code"], ref["code"]), case)
                else:
                    ctx.res.distinct.add((mode, "disjoint", len(Pm), tuple(order), r["code"]))
                    if len(ctx.res.samples) < 2:
                        ctx.sample({"merged": M, "data": Dm, "params": Pm, "order": list(order), "mode": mode, "statuses": st, "exit": r["code"]})
        # ---- the data document on STDIN (no --data) + -i: the same merged verdicts, and the same refusal of a doubly defined key
        if not extra_data:
            iargs = iargs_for(range(len(Pm)))
            for structured in (False, True):
                tail = ["--structured", "-S", "none", "-o", "json"] if structured else ["-S", "none", "-o", "json"]
                mode = "stdin-structured" if structured else "stdin-plain"
                r = ctx.w.run({"k": "cli", "argv": ["validate", "-r", "{S}/r.guard"] + iargs + tail, "files": fl, "symlinks": sl, "stdin": fl["d.json"]})
                ctx.res.cases += 1
                ctx.res.counts["stdin_data_runs"] += 1
                case = {"rules": rtext, "files": fl, "symlinks": sl, "order": list(range(len(Pm))), "structured": structured, "overlap": overlap, "stdin": True, "iargs": iargs}
                if core.crash_signature(r):
                    ctx.inconclusive("crash")
                    continue
                if overlap:
                    if r.get("r") == "ok":
                        ctx.violation("overlap:%s:%s:silently-accepted" % (mode, which), "data on STDIN: conflicting top-level key accepted silently: exit %s" % r.get("code"), case)
                    continue
                ref = ctx.w.run({"k": "cli", "argv": ["validate", "-r", "{S}/r.guard"] + tail, "files": fl, "symlinks": sl, "stdin": fl["m.json"]})
                ref_st, st = statuses_of(ref, structured), statuses_of(r, structured)
                if ref_st is None:
                    ctx.inconclusive("reference-error-or-crash")
                elif st != ref_st or r.get("code") != ref.get("code"):
                    ctx.violation("disjoint:%s:verdicts-differ" % mode, "data on STDIN with -i: verdicts %s (exit %s) differ from the pre-merged document on STDIN %s (exit %s)" % (
                        st, r.get("code"), ref_st, ref.get("code")), case)
                else:
                    ctx.res.distinct.add((mode, "disjoint", r["code"]))
        # ---- payload + -i (plain and structured) : same merged verdicts
        if not overlap and not extra_data:
            iargs = iargs_for(range(len(Pm)))
            ref = ctx.w.run({"k": "cli", "argv": ["validate", "--payload", "--structured", "-S", "none", "-o", "json"], "stdin": json.dumps({"rules": [rtext], "data": [json.dumps(M)]})})
            ref_st = statuses_of(ref, True)
            for structured in (False, True):
                tail = ["--structured", "-S", "none", "-o", "json"] if structured else ["-S", "none", "-o", "json"]
                r = ctx.w.run({"k": "cli", "argv": ["validate", "--payload"] + iargs + tail, "files": fl, "symlinks": sl, "stdin": json.dumps({"rules": [rtext], "data": [json.dumps(Dm)]})})
                ctx.res.cases += 1
                mode = "payload-structured" if structured else "payload-plain"
                case = {"rules": rtext, "files": fl, "symlinks": sl, "order": list(range(len(Pm))), "structured": structured, "payload": True, "iargs": iargs}
                if r.get("r") != "ok" or ref_st is None:
                    ctx.inconclusive("payload-error-or-crash")
                    continue
                st = statuses_of(r, structured)
                if st != ref_st:
                    ctx.violation("disjoint:%s:verdicts-differ" % mode, "payload with -i: verdicts %s differ from the pre-merged document %s" % (st, ref_st), case)
                else:
                    ctx.res.distinct.add((mode, "disjoint"))


def replay(case, w):
    fl = case["files"]
    sl = case.get("symlinks", {})
    if case.get("stdin"):
        tail = ["--structured", "-S", "none", "-o", "json"] if case["structured"] else ["-S", "none", "-o", "json"]
        r = w.run({"k": "cli", "argv": ["validate", "-r", "{S}/r.guard"] + case["iargs"] + tail, "files": fl, "symlinks": sl, "stdin": fl["d.json"]})
        if case.get("overlap"):
            return r.get("r") != "ok", "overlap with data on STDIN: %s" % r.get("code")
        ref = w.run({"k": "cli", "argv": ["validate", "-r", "{S}/r.guard"] + tail, "files": fl, "symlinks": sl, "stdin": fl["m.json"]})
        return statuses_of(r, case["structured"]) == statuses_of(ref, case["structured"]) and r.get("code") == ref.get("code"), "stdin run %s vs merged %s" % (r.get("code"), ref.get("code"))
    structured = case["structured"]
    tail = ["--structured", "-S", "none", "-o", "json"] if structured else ["-S", "none", "-o", "json"]
    iargs = case.get("iargs") or [x for i in case["order"] for x in ("-i", "{S}/p%d.json" % i)]
    if case.get("payload"):
        M = json.loads(fl["m.json"])
        ref = w.run({"k": "cli", "argv": ["validate", "--payload", "--structured", "-S", "none", "-o", "json"], "stdin": json.dumps({"rules": [case["rules"]], "data": [fl["m.json"]]})})
        r = w.run({"k": "cli", "argv": ["validate", "--payload"] + iargs + tail, "files": fl, "symlinks": sl, "stdin": json.dumps({"rules": [case["rules"]], "data": [fl["d.json"]]})})
        return statuses_of(r, structured) == statuses_of(ref, True), "payload"
    two = case.get("extra_data")
    r = w.run({"k": "cli", "argv": ["validate", "-r", "{S}/r.guard", "-d", "{S}/d.json"] + (["-d", "{S}/d2.json"] if two else []) + iargs + tail, "files": fl, "symlinks": sl})
    if case.get("overlap"):
        ok = r.get("r") == "err" and not r.get("out", "").strip()
        return ok, "result %s code %s" % (r.get("r"), r.get("code"))
    ref = w.run({"k": "cli", "argv": ["validate", "-r", "{S}/r.guard", "-d", "{S}/m.json"] + (["-d", "{S}/m2.json"] if two else []) + tail, "files": fl, "symlinks": sl})
    return statuses_of(r, structured) == statuses_of(ref, structured) and r.get("code") == ref.get("code"), "codes %s %s" % (r.get("code"), ref.get("code"))


def main(tier, seed):
    t0 = time.time()
    core.build()
    res = core.run_shards(shard, seed, tier, "C17")
    c = res.counts
    floor = {"cases": (res.cases, 400), "plain_disjoint": (c["plain:disjoint"], 80), "structured_disjoint": (c["structured:disjoint"], 80),
             "plain_overlap": (c["plain:overlap"], 15), "structured_overlap": (c["structured:overlap"], 15)}
    return core.finish("C17", tier, seed, res, t0,
                       rule="documents with 3-7 top-level keys split at random into data + 1-3 parameter files (JSON or YAML), every order of the -i arguments, plain "
                            "and structured mode, 30% with a second data file, 25% with a deliberately overlapping key (param/param or data/param), plus payload "
                            "mode; rules read keys by name and iterate the merged root (`this.*`, `[ keys == / in / regex ]`); distinct = (mode, class, #params, order, exit)",
                       floor=floor,
                       assumptions=["the reference is `validate` on the pre-merged document through the same front end"])
