"""C16 - `cfn-guard test` agrees with `cfn-guard validate`.

For generated rules (some rule names defined twice) x 1-4 inputs x ALL 3^k expectation assignments (k<=3
rules with an expectation, others left without), `test` is run in plain / json / yaml / junit rendering and
in the --dir layout; per (case, rule) the reported outcome must follow from the statuses `validate`
(print-json record) assigns to that rule on the same input, and the renderings must agree.
"""
import itertools
import json
import re
import time
import xml.etree.ElementTree as ET

import yaml

from .. import core, gen, obs

ST = ("PASS", "FAIL", "SKIP")


def gen_rules(rng, doc):
    """2-4 rule names; ~30% of files define one name twice with opposite `when` guards"""
    o = gen.Opts(refs=rng.random() < 0.5, types=False, calls=False, max_rules=4, max_lines=2, default=rng.random() < 0.4)      # half of the files: rules naming other rules (in bodies and `when` conditions)
    f = gen.gen_file(rng, doc, o)
    if o.default and not f["default"]:
        o.default = False
        o.whens = False
        f["default"] = gen.gen_cnf(rng, doc, o, 0, {"refs": [], "vars": [], "prules": [], "allow_ref": False}, maxlines=2)
    names = [r["name"] for r in f["rules"]]
    if len(f["rules"]) >= 2 and rng.random() < 0.45:
        a = rng.randrange(len(f["rules"]))
        dup = gen.clone(f["rules"][rng.randrange(len(f["rules"]))])
        dup["name"] = f["rules"][a]["name"]
        env = {"refs": [], "vars": [], "prules": [], "allow_ref": False}
        dup["when"] = gen.gen_cond(rng, doc, o, 0, env)
        if rng.random() < 0.5:
            f["rules"][a]["when"] = gen.gen_cond(rng, doc, o, 0, env)
        f["rules"].insert(rng.randrange(len(f["rules"]) + 1), dup)
    # file-level clauses form the rule `<rules file>/default` (`<stem>/default` in the --dir layout); canonical name here: "default"
    return gen.pfile(f), sorted(set(r["name"] for r in f["rules"])) + (["default"] if f["default"] else [])


def canon(n):
    return "default" if isinstance(n, str) and n.endswith("/default") else n


def validate_statuses(w, rtext, doc):
    """rule name -> list of statuses, from `validate --print-json` (definition order)"""
    r = w.run({"k": "cli", "argv": ["validate", "-r", "{S}/r.guard", "-d", "{S}/d.json", "-p", "-S", "none"], "files": {"r.guard": rtext, "d.json": json.dumps(doc, ensure_ascii=False)}})      # raw characters: validate cannot read surrogate-pair escapes (known C11 finding)
    if r.get("r") != "ok":
        return None, r
    out = r["out"]
    idx = out.find('{\n  "context"')
    try:
        tree = json.loads(out[idx:])
    except ValueError:
        return None, r
    m = {}
    for n, s in obs.tree_rule_statuses(tree):
        m.setdefault(canon(n), []).append(s)
    return m, r


def met(expected, V):
    if expected == "SKIP":
        return all(s == "SKIP" for s in V)
    return expected in V


def rel_from_struct(doc):
    """json/yaml test report -> {(case, rule): ('met', None) | ('unmet', evaluated list) | ('noexp', None)}"""
    rel = {}
    for tc in doc.get("test_cases", []):
        c = tc.get("name")
        for x in tc.get("passed_rules", []):
            rel[(c, x["name"])] = ("met", x.get("evaluated"))
        for x in tc.get("failed_rules", []):
            rel[(c, x["name"])] = ("unmet", list(x.get("evaluated", [])), x.get("expected"))
        for x in tc.get("skipped_rules", []):
            rel[(c, x["name"])] = ("noexp", None)
    return rel


def rel_from_plain(out):
    rel = {}
    case = None
    section = None
    for line in out.split("\n"):
        m = re.match(r"^Name: (.*)$", line)
        if m:
            case = m.group(1)
            continue
        m = re.match(r"^\s+No Test expectation was set for Rule (\S+)", line)
        if m:
            rel[(case, m.group(1))] = ("noexp", None)
            continue
        m = re.match(r"^\s+(PASS|FAIL) Rules:", line)
        if m:
            section = m.group(1)
            continue
        m = re.match(r"^\s+(\S+): Expected = (\w+)(?:, Evaluated = \[(.*)\])?", line)
        if m and section:
            if section == "PASS":
                rel[(case, m.group(1))] = ("met", m.group(2))
            else:
                ev = [x.strip() for x in (m.group(3) or "").split(",") if x.strip()]
                rel[(case, m.group(1))] = ("unmet", ev, m.group(2))
    return rel


def rel_from_junit(out):
    rel = {}
    root = ET.fromstring(out)
    for tc in root.iter("testcase"):
        cid, name = tc.get("id"), tc.get("name")
        if cid is None:
            continue
        f = tc.find("failure")
        if f is not None:
            m = re.search(r"Evaluated = \[(.*)\]", f.text or "")
            ev = [x.strip() for x in (m.group(1) if m else "").split(",") if x.strip()]
            rel[(cid, name)] = ("unmet", ev, None)
        elif tc.get("status") == "skip" or tc.find("skipped") is not None:
            rel[(cid, name)] = ("noexp", None)
        else:
            rel[(cid, name)] = ("met", None)
    nf = len(list(root.iter("failure")))
    return rel, nf, root


def kind_rel(rel):
    return {k: v[0] for k, v in rel.items()}


def check_one(ctx, rtext, names, docs, exps, tag):
    """exps: list (per case) of {rule: expected}"""
    def spell(e, layout):
        out = {k: v for k, v in e.items() if k != "default"}
        if "default" in e:
            # -r/-t layout: the name is the rules path as given on the command line; --dir layout: the file stem
            out["{S}/rr.guard/default" if layout == "files" else "rr/default"] = e["default"]
        return out
    ttexts = {layout: json.dumps([{"name": "case%d" % i, "input": d, "expectations": {"rules": spell(e, layout)}} for i, (d, e) in enumerate(zip(docs, exps))])
              for layout in ("files", "dir")}
    ttext = json.dumps([{"name": "case%d" % i, "input": d, "expectations": {"rules": e}} for i, (d, e) in enumerate(zip(docs, exps))])
    V = []
    for d in docs:
        m, r = validate_statuses(ctx.w, rtext, d)
        if m is None:
            ctx.inconclusive("validate-error-or-crash")
            return
        V.append(m)
    expected_rel = {}
    any_unmet = False
    for i, e in enumerate(exps):
        for n in names:
            if n not in V[i]:
                continue
            if n in e:
                ok = met(e[n], V[i][n])
                expected_rel[("case%d" % i, n)] = "met" if ok else "unmet"
                any_unmet |= not ok
            else:
                expected_rel[("case%d" % i, n)] = "noexp"
    want_exit = 7 if any_unmet else 0
    # a second test-data file for the same rules file, sorting after the first, whose stated expectations all hold: the run as a whole
    # still fails iff some expectation of either file is unmet
    import zlib
    second = None
    if zlib.crc32((rtext + "2").encode()) % 2 == 0:
        zexps = []
        for i in range(len(docs)):
            e2 = {}
            for n in names:
                if n in V[i] and zlib.crc32(("%s%d" % (n, i)).encode()) % 3:
                    nonskip = [x for x in V[i][n] if x != "SKIP"]
                    e2[n] = nonskip[0] if nonskip else "SKIP"
            zexps.append(e2)
            for n in names:
                if n in V[i]:
                    expected_rel[("zcase%d" % i, n)] = "met" if n in e2 else "noexp"
        second = {layout: json.dumps([{"name": "zcase%d" % i, "input": d, "expectations": {"rules": spell(e2, layout)}} for i, (d, e2) in enumerate(zip(docs, zexps))])
                  for layout in ("files", "dir")}
        ctx.res.counts["runs_with_two_test_data_files"] += 1
    case = {"rules": rtext, "tests": ttext, "names": names}
    fl = {"rr.guard": rtext, "tests/rr_tests.json": ttext}
    outs = {}
    import zlib
    # every documented extension of a tests file (JSON text is YAML too), and the directory ordering flags
    ext = ["json", "yaml", "yml", "jsn"][zlib.crc32(ttext.encode()) % 4]          # the four extensions the --dir layout picks up
    order = [[], ["-a"], ["-m"]][zlib.crc32(rtext.encode()) % 3]
    ctx.res.extra.setdefault("tests_file_extensions", set()).add(ext)
    for fmt in ("plain", "json", "yaml", "junit"):
        for layout in ("files", "dir"):
            if layout == "dir" and fmt in ("yaml",) and ctx.quick:
                continue
            tfiles = {"rr.guard": rtext, "tests/rr_tests." + ext: ttexts[layout]}
            tpath = "{S}/tests/rr_tests." + ext
            if second is not None:
                tfiles["tests/rr_zz_tests." + ext] = second[layout]
                tpath = "{S}/tests"           # --test-data may name a directory of test files
            argv = ["test"] + (["-r", "{S}/rr.guard", "-t", tpath] if layout == "files" else ["-d", "{S}"]) + ([] if fmt == "plain" else ["-o", fmt]) + order
            if second is not None and not order:
                argv += ["-a"]                 # without -a / -m the order of the two files is the directory's
            r = ctx.w.run({"k": "cli", "argv": argv, "files": tfiles, "subst_files": True})
            ctx.res.cases += 1
            cfg = "%s-%s" % (fmt, layout)
            c2 = dict(case, cfg=cfg)
            if r.get("r") != "ok":
                ctx.inconclusive("test-error-or-crash")
                continue
            try:
                if fmt == "plain":
                    rel = rel_from_plain(r["out"])
                elif fmt == "json":
                    d = json.loads(r["out"])
                    rel = rel_from_struct(d[0] if isinstance(d, list) else d)
                elif fmt == "yaml":
                    d = yaml.safe_load(r["out"])
                    rel = rel_from_struct(d[0] if isinstance(d, list) else d)
                else:
                    rel, nf, root = rel_from_junit(r["out"])
                    # counters: every <testsuite failures=/errors=> and the <testsuites> totals count exactly the <failure>/<error> elements below them
                    bad_attr = None
                    for el in [root] + list(root.iter("testsuite")):
                        for attr, tag in (("failures", "failure"), ("errors", "error")):
                            if el.get(attr) is not None and int(el.get(attr)) != len(list(el.iter(tag))):
                                bad_attr = "<%s name=%r> says %s=%s but contains %d <%s> elements" % (el.tag, el.get("name"), attr, el.get(attr), len(list(el.iter(tag))), tag)
                    if bad_attr:
                        ctx.violation("junit:counter-attribute", bad_attr, c2)
                        continue
                    ctx.res.counts["junit_counter_attributes_checked"] += 1
                    if nf != sum(1 for v in expected_rel.values() if v == "unmet"):
                        ctx.violation("junit:failure-count", "junit has %d <failure> elements, %d expectations are unmet" % (nf, sum(1 for v in expected_rel.values() if v == "unmet")), c2)
                        continue
            except (ValueError, yaml.YAMLError, ET.ParseError, KeyError, IndexError, TypeError) as e:
                ctx.violation("%s:malformed" % fmt, "output of test -o %s is malformed: %s" % (fmt, str(e)[:100]), c2)
                continue
            rel = {(k[0], canon(k[1])): v for k, v in rel.items()}
            if "default" in names:
                ctx.res.counts["default_rule_outcomes"] += sum(1 for k in rel if k[1] == "default")
            got = kind_rel(rel)
            ctx.res.distinct.add((cfg, tuple(sorted(set(got.values()))), r["code"]))
            for v in set(expected_rel.values()):
                ctx.res.extra.setdefault("outcomes_seen", set()).add("%s:%s" % (fmt, v))
            if got != expected_rel:
                diff = {("%s/%s" % k): (expected_rel.get(k), got.get(k)) for k in set(got) | set(expected_rel) if got.get(k) != expected_rel.get(k)}
                kinds = sorted({"%s->%s" % (a, b) for a, b in diff.values()})
                multi = any(len(V[int(k.split("/")[0][4:])].get(k.split("/")[1], [])) > 1 for k in diff)
                ctx.violation("%s:outcome:%s%s" % (fmt, ",".join(kinds), ":multi-definition" if multi else ""),
                              "test (%s) vs validate: (expected-from-validate, reported) %s ; validate statuses %s ; expectations %s" % (cfg, diff, V, exps), c2)
                continue
            # evaluated statuses reported for unmet expectations == validate's statuses
            bad = False
            for k, v in rel.items():
                if v[0] == "unmet" and v[1] is not None and fmt != "junit" or (v[0] == "unmet" and fmt == "junit" and v[1]):
                    want = V[int(k[0][4:])][k[1]]
                    if list(v[1]) != want:
                        ctx.violation("%s:evaluated-status" % fmt, "test reports evaluated %s for %s, validate says %s" % (v[1], k, want), c2)
                        bad = True
                        break
                    for s in want:
                        ctx.res.extra.setdefault("status_seen", set()).add(s)
            if bad:
                continue
            if r["code"] != want_exit:
                ctx.violation("%s:exit" % cfg, "exit %s, expectations imply %s" % (r["code"], want_exit), c2)
            outs[cfg] = got
    if len(ctx.res.samples) < 2 and outs:
        ctx.sample({"rules": rtext[:400], "validate_statuses": V, "expectations": exps, "relation": {("%s/%s" % k): v for k, v in expected_rel.items()}, "exit": want_exit})


def shard(ctx):
    rng = ctx.rng("c16")
    if ctx.mine(0):
        check_tagged(ctx)
        check_same_names(ctx)
    n = 9 if ctx.quick else 320
    for t in range(n):
        doc0 = gen.gen_doc(rng)
        docs = [doc0] + [gen.gen_doc(rng) for _ in range(rng.randint(0, 3))]
        if t % 4 == 1:
            # a character outside the BMP: the JSON tests file spells it as a surrogate-pair escape (json.dumps default), which only a JSON reader accepts
            for d_ in docs:
                if isinstance(d_, dict):
                    d_["emoji"] = "go \U0001F680"
            ctx.res.counts["cases_with_surrogate_pair_escapes"] += 1
        rtext, names = gen_rules(rng, doc0)
        k = min(len(names), 3)
        with_exp = rng.sample(names, k)
        if rng.random() < 0.4 and k > 1:
            with_exp = with_exp[:-1]          # leave a rule without expectation
        combos = list(itertools.product(ST, repeat=len(with_exp)))
        if ctx.quick and len(combos) > 9:
            combos = rng.sample(combos, 9)
        for combo in combos:
            # the assignment is applied to case 0; the other cases get random expectations
            exps = [dict(zip(with_exp, combo))]
            for _ in docs[1:]:
                exps.append({nme: rng.choice(ST) for nme in with_exp if rng.random() < 0.8})
            check_one(ctx, rtext, names, docs, exps, "rand")


TAGGED_YAML = """Conditions:
  IsProd: !Equals [!Ref Env, prod]
  Both: !And [!Condition IsProd, !Not [!Equals [!Ref Env, dev]]]
Resources:
  b:
    Type: AWS::S3::Bucket
    Condition: IsProd
    Properties:
      Arn: !GetAtt role.Arn
      ArnList: !GetAtt [role, Arn]
      Name: !Sub "${AWS::StackName}-bucket"
      Name2: !Sub ["${a}-x", {a: !Ref Env}]
      Joined: !Join ["-", [a, !Ref Env, c]]
      Pick: !Select [0, !GetAZs ""]
      Zone: !If [IsProd, !FindInMap [m, k1, k2], !Ref "AWS::NoValue"]
      Data: !Base64 payload
      Imp: !ImportValue shared
      Parts: !Split [",", "a,b"]
"""
TAGGED_RULES = """rule cond_and_first { Conditions.Both.'Fn::And'[0].Condition == "IsProd" }
rule cond_not { Conditions.Both.'Fn::And'[1].'Fn::Not'[0].'Fn::Equals'[1] == "dev" }
rule equals_ref { Conditions.IsProd.'Fn::Equals'[0].Ref == "Env" }
rule resource_condition { Resources.b.Condition == "IsProd" }
rule getatt_scalar { Resources.b.Properties.Arn.'Fn::GetAtt' == "role.Arn" }
rule getatt_list { Resources.b.Properties.ArnList.'Fn::GetAtt'[1] == "Arn" }
rule sub_scalar { Resources.b.Properties.Name.'Fn::Sub' == /bucket$/ }
rule sub_list { Resources.b.Properties.Name2.'Fn::Sub'[1].a.Ref == "Env" }
rule join_parts { Resources.b.Properties.Joined.'Fn::Join'[1][1].Ref == "Env" }
rule select_azs { Resources.b.Properties.Pick.'Fn::Select'[1].'Fn::GetAZs' == "" }
rule if_findinmap { Resources.b.Properties.Zone.'Fn::If'[1].'Fn::FindInMap'[2] == "k2" }
rule if_novalue { Resources.b.Properties.Zone.'Fn::If'[2].Ref == "AWS::NoValue" }
rule base64 { Resources.b.Properties.Data.'Fn::Base64' == "payload" }
rule import_value { Resources.b.Properties.Imp.'Fn::ImportValue' == "shared" }
rule split { Resources.b.Properties.Parts.'Fn::Split'[0] == "," }
rule wrong_on_purpose { Resources.b.Properties.Imp.'Fn::ImportValue' == "other" }
rule skipped when Resources.b.Properties.Nope exists { Resources.b.Type == "x" }
"""


def check_same_names(ctx):
    """test cases are told apart by position, not by their free-text `name`: two cases of one name are both evaluated, both reported, and
    an unmet expectation in the later one still makes the run fail - in every rendering and layout"""
    rules = "rule a {\n    x == 1\n}\nrule b {\n    y exists\n}\n"
    cases = [{"name": "base", "input": {"x": 1, "y": 1}, "expectations": {"rules": {"a": "PASS", "b": "PASS"}}},
             {"name": "same name", "input": {"x": 1, "y": 1}, "expectations": {"rules": {"a": "PASS", "b": "PASS"}}},
             {"name": "same name", "input": {"x": 2}, "expectations": {"rules": {"a": "PASS", "b": "FAIL"}}},        # a is FAIL here: unmet
             {"input": {"x": 1}, "expectations": {"rules": {"a": "PASS"}}}, {"input": {"x": 1}, "expectations": {"rules": {"a": "PASS"}}}]
    second = [{"name": "same name", "input": {"x": 1, "y": 2}, "expectations": {"rules": {"b": "PASS"}}}]
    files = {"t/r.guard": rules, "t/tests/r_tests.json": json.dumps(cases), "t/tests/r_more_tests.yaml": json.dumps(second)}
    for fmt in ("plain", "json", "yaml", "junit"):
        for layout, argv in (("files", ["test", "-r", "{S}/t/r.guard", "-t", "{S}/t/tests/r_tests.json"]), ("dir", ["test", "-d", "{S}/t"])):
            r = ctx.w.run({"k": "cli", "argv": argv + ([] if fmt == "plain" else ["-o", fmt]), "files": files})
            ctx.res.cases += 1
            case = {"kind": "samenames", "fmt": fmt, "layout": layout}
            if r.get("r") not in ("ok", "err") or core.crash_signature(r):
                ctx.inconclusive("crash")
                continue
            want_cases = 5 + (1 if layout == "dir" else 0)
            ctx.res.counts["same_name_runs"] += 1
            if r.get("code") != 7:
                ctx.violation("same-names:%s-%s:exit" % (fmt, layout), "a later test case that shares its name with an earlier one has an unmet expectation: exit %s, expected 7" % r.get("code"), case)
                continue
            out = r.get("out", "")
            n = None
            if fmt == "json":
                try:
                    docs_ = json.loads(out)
                    n = sum(len(d_.get("test_cases", [])) for d_ in (docs_ if isinstance(docs_, list) else [docs_]))
                except ValueError:
                    n = -1
            elif fmt == "yaml":
                import yaml
                try:
                    docs_ = yaml.safe_load(out)
                    n = sum(len(d_.get("test_cases", [])) for d_ in (docs_ if isinstance(docs_, list) else [docs_]))
                except yaml.YAMLError:
                    n = -1
            elif fmt == "plain":
                n = len(re.findall(r"^Test Case #\d+", out, re.M))
            if n is not None and n != want_cases:
                ctx.violation("same-names:%s-%s:case-count" % (fmt, layout), "%s test cases reported for %d cases in the tests files" % (n, want_cases), case)
            else:
                ctx.res.distinct.add(("same-names", fmt, layout))


def check_tagged(ctx):
    """a template written with CloudFormation short-form tags: `test` (serde loader) must evaluate every rule to the status `validate`
    (libyaml loader) assigns on the same text; expectations equal to validate's statuses are all met, in every rendering"""
    r = ctx.w.run({"k": "cli", "argv": ["validate", "-r", "{S}/r.guard", "-d", "{S}/d.yaml", "--structured", "-S", "none", "-o", "json"], "files": {"r.guard": TAGGED_RULES, "d.yaml": TAGGED_YAML}})
    if r.get("r") != "ok":
        ctx.inconclusive("tagged-validate-error")
        return
    V = {k: v[0] for k, v in obs.report_statuses(json.loads(r["out"])[0]).items()}
    names = re.findall(r"^rule (\w+)", TAGGED_RULES, re.M)
    if set(V) != set(names) or V.get("wrong_on_purpose") != "FAIL" or V.get("skipped") != "SKIP" or list(V.values()).count("PASS") != len(names) - 2:
        ctx.violation("tagged:validate-baseline", "validate on the short-form template does not give the designed statuses: %s" % V, {"kind": "tagged"})
        return
    body = "".join("    " + ln + "\n" for ln in TAGGED_YAML.rstrip("\n").split("\n"))
    for variant, exps in (("as-validate", V), ("one-wrong", dict(V, getatt_list="FAIL"))):
        spec = "- name: tagged\n  input:\n" + body + "  expectations:\n    rules:\n" + "".join("      %s: %s\n" % (n, exps[n]) for n in names)
        want_exit = 0 if variant == "as-validate" else 7
        for fmt in ("plain", "json", "yaml", "junit"):
            for layout in ("files", "dir"):
                argv = ["test"] + (["-r", "{S}/tg.guard", "-t", "{S}/tests/tg_tests.yaml"] if layout == "files" else ["-d", "{S}"]) + ([] if fmt == "plain" else ["-o", fmt])
                rr = ctx.w.run({"k": "cli", "argv": argv, "files": {"tg.guard": TAGGED_RULES, "tests/tg_tests.yaml": spec}})
                ctx.res.cases += 1
                ctx.res.counts["tagged_input_runs"] += 1
                if rr.get("r") != "ok":
                    ctx.inconclusive("tagged-test-error")
                    continue
                if rr["code"] != want_exit:
                    ctx.violation("tagged:%s:%s-%s:exit" % (variant, fmt, layout), "short-form template as test input, expectations %s: exit %s, expected %s\n%s" % (
                        "= validate's statuses" if variant == "as-validate" else "with one deliberately wrong", rr["code"], want_exit, rr["out"][:600]), {"kind": "tagged"})
                else:
                    ctx.res.distinct.add(("tagged", variant, fmt, layout, rr["code"]))


def replay(case, w):
    if case.get("kind") == "samenames":
        res = core.ShardResult()
        found = []

        class C3(core.Ctx):
            def violation(self, sig, what, rp):
                found.append(sig)
        check_same_names(C3(w, 0, 1, 1, "quick", res, {"prop": "C16"}))
        return not found, "violations: %s" % sorted(set(found))
    if case.get("kind") == "tagged":
        res = core.ShardResult()
        found = []

        class C2(core.Ctx):
            def violation(self, sig, what, rp):
                found.append(sig)
        check_tagged(C2(w, 0, 1, 1, "quick", res, {"prop": "C16"}))
        return not found, "violations: %s" % sorted(set(found))
    res = core.ShardResult()
    found = []

    class Ctx(core.Ctx):
        def violation(self, sig, what, rp):
            found.append(sig)
    c = Ctx(w, 0, 1, 1, "thorough", res, {"prop": "C16"})
    specs = json.loads(case["tests"])
    check_one(c, case["rules"], case["names"], [s["input"] for s in specs], [s["expectations"]["rules"] for s in specs], "replay")
    return not found, "violations: %s" % sorted(set(found))


def main(tier, seed):
    t0 = time.time()
    core.build()
    res = core.run_shards(shard, seed, tier, "C16")
    oc = res.extra.get("outcomes_seen", set())
    floor = {"cases": (res.cases, 2000), "format_x_outcome": (len(oc), 12), "statuses_in_unmet": (len(res.extra.get("status_seen", set())), 3)}
    return core.finish("C16", tier, seed, res, t0,
                       rule="generated rules files (45% with a doubly defined rule name) x 1-4 documents x all 3^k expectation assignments for the first case (k<=3; "
                            "quick: 9 sampled) with random expectations elsewhere, rules without expectation included; plain/json/yaml/junit x files/--dir; "
                            "oracle: statuses from `validate --print-json` + the property's met/unmet rule; distinct = (rendering+layout, outcome kinds, exit)",
                       floor=floor,
                       assumptions=["inputs are JSON-compatible documents", "output order is not compared here (C05 owns that)"])
