"""C15 - variables and parameterised rules are transparent abstractions.

Metamorphic monitor: a program P and P' = P with ONE abstraction step applied, on the same document,
must give the same rule -> status map.
  lit    : a literal right-hand side is bound to a `let` (file / rule / block scope) and referenced as %v
  prefix : a query prefix q of `q.rest` is bound to a `let` in a scope with the same context, `%v.rest`
  prefixall : the same, for every clause that shares the prefix (every reference sees the same value)
  unused : an unused `let` (literal / resolving query / unresolvable query / erroring function call) is added
  shadow : an inner `let` of the same name shadows an outer one (inner uses see inner, outer uses see outer)
  inline : `rule c { f(args) }` vs `rule c { body of f with parameters replaced by the arguments }`
The documented exception (emptiness test on a bare variable tests the result set) is skipped.
"""
import json
import re
import time

from .. import core, gen, obs


# --------------------------------------------------------------------------- site discovery

def sites(g):
    """collect abstraction sites of file AST g (live references into g)"""
    out = []
    F = ("file", g)

    def visit_query_filters(q, vis):
        for p in q:
            if p[0] == "filter":
                visit_cnf(p[1], vis, [], in_filter=True)

    def visit_cnf(cnf, vis, ctx, in_filter=False):
        for line in cnf:
            for alt in line:
                t = alt["t"]
                if t == "clause":
                    out.append({"kind": "clause", "node": alt, "vis": list(vis), "ctx": list(ctx), "in_filter": in_filter})
                    visit_query_filters(alt["q"], vis)
                elif t == "block":
                    out.append({"kind": "blockq", "node": alt, "vis": list(vis), "ctx": list(ctx), "in_filter": in_filter})
                    visit_query_filters(alt["q"], vis)
                    B = ("block", alt)
                    visit_cnf(alt["body"], vis + [B], [B], in_filter)
                elif t == "when":
                    visit_cnf(alt["cond"], vis, ctx, in_filter)
                    W = ("block", alt)
                    visit_cnf(alt["body"], vis + [W], (ctx + [W]) if not in_filter else [W], in_filter)
                elif t == "type":
                    if alt.get("cond"):
                        visit_cnf(alt["cond"], vis, ctx, in_filter)
                    T = ("block", alt)
                    visit_cnf(alt["body"], vis + [T], [T], in_filter)

    if g.get("default"):
        visit_cnf(g["default"], [F], [F])
    for r in g["rules"]:
        if r.get("params"):
            continue
        if r.get("when"):
            visit_cnf(r["when"], [F], [F])
        R = ("rule", r)
        visit_cnf(r["body"], [F, R], [F, R])
    return out


def used_names(g):
    return set(__import__("re").findall(r"[A-Za-z_][A-Za-z0-9_]*", json.dumps(g)))


def add_let(scope, name, rhs):
    kind, node = scope
    node.setdefault("lets", []).append([name, rhs])


def transforms(rng, f, maxn=12):
    """yield (label, scope level, details, transformed AST)"""
    base_sites = sites(f)
    if not base_sites:
        return
    order = list(range(len(base_sites)))
    rng.shuffle(order)
    n = 0
    for si in order:
        if n >= maxn:
            break
        s0 = base_sites[si]
        node0 = s0["node"]
        # ---- lit
        if s0["kind"] == "clause" and node0.get("rhs") and node0["rhs"][0] == "lit":
            for level in range(len(s0["vis"])):
                g = gen.clone(f)
                s = sites(g)[si]
                sc = s["vis"][level]
                s["node"]["rhs"] = ["var", "tvl"]
                add_let(sc, "tvl", ["lit", node0["rhs"][1]])
                n += 1
                yield "lit", sc[0], "lit@%s" % sc[0], g, None
        # ---- prefix (query of a clause or of a block), not inside filters
        if not s0["in_filter"] and s0["ctx"]:
            q = node0["q"]
            if q and q[0][0] in ("key", "this"):
                cuts = [k for k in range(1, len(q) + 1)]
                rng.shuffle(cuts)
                for k in cuts[:2]:
                    prefix, rest = q[:k], q[k:]
                    if prefix == [["this"]] and not rest:
                        continue
                    if s0["kind"] == "clause" and not rest and node0["op"] == "empty":
                        continue        # documented exception: emptiness test on a bare variable
                    for level in range(len(s0["ctx"])):
                        g = gen.clone(f)
                        s = sites(g)[si]
                        sc = s["ctx"][level]
                        s["node"]["q"] = [["var", "tvq"]] + gen.clone(rest)
                        add_let(sc, "tvq", ["query", gen.clone(prefix)])
                        nxt = rest[0][0] if rest else "end"
                        n += 1
                        hyp = None
                        if nxt == "allidx":
                            # known quirk (see known_findings.json): a `[*]` that directly follows a variable is swallowed.
                            # hypothesis program = the base program rewritten the way the quirk predicts
                            hyp = gen.clone(f)
                            hs = sites(hyp)[si]
                            hs["node"]["q"] = gen.clone(prefix) + gen.clone(rest[1:])
                            if len(rest) > 1 and rest[1][0] == "filter":
                                # with the `[*]` swallowed the filter directly follows the variable: the second listed finding (`%v[ filter ]`)
                                # takes over. Chain of two listed findings: q[*][f] -> q[f] (quirk) -> %v[f] (finding next=filter) == the variant
                                g2 = gen.clone(g)
                                s2 = sites(g2)[si]
                                s2["node"]["q"] = [["var", "tvq"]] + gen.clone(rest[1:])
                                hyp["_hyp2"] = g2
                        yield "prefix", sc[0], "prefix:next=%s" % nxt, g, hyp
        # ---- keyvar: a key of the query taken from a variable (documented interpolation `a.%k`) == the key written in place
        q = node0["q"]
        cand = [k for k in range(1, len(q)) if q[k][0] == "key" and not q[k][1].lstrip("-").isdigit() and q[k - 1][0] in ("key", "all", "allidx", "idx", "this")
                and (k == len(q) - 1 or q[k + 1][0] in ("key", "allidx"))]
        if cand and s0["vis"]:
            k = rng.choice(cand)
            for level in range(len(s0["vis"])):
                g = gen.clone(f)
                s = sites(g)[si]
                sc = s["vis"][level]
                s["node"]["q"][k] = ["varkey", "tvk"]
                add_let(sc, "tvk", ["lit", q[k][1]])
                n += 1
                yield "keyvar", sc[0], "keyvar:%s@%s" % ("last" if k == len(q) - 1 else "inner", sc[0]), g, None
        # ---- shadow: needs a clause with literal rhs inside a block and another one outside
        if s0["kind"] == "clause" and node0.get("rhs") and node0["rhs"][0] == "lit" and len(s0["vis"]) >= 2 and s0["vis"][-1][0] == "block":
            outer = [j for j, o in enumerate(base_sites) if o["kind"] == "clause" and o["node"].get("rhs") and o["node"]["rhs"][0] == "lit"
                     and o is not s0 and not any(v[1] is s0["vis"][-1][1] for v in o["vis"])]
            if outer:
                oj = rng.choice(outer)
                g = gen.clone(f)
                ss = sites(g)
                s_in, s_out = ss[si], ss[oj]
                inner_scope = s_in["vis"][-1]
                add_let(("file", g), "tvs", ["lit", base_sites[oj]["node"]["rhs"][1]])
                add_let(inner_scope, "tvs", ["lit", node0["rhs"][1]])
                s_in["node"]["rhs"] = ["var", "tvs"]
                s_out["node"]["rhs"] = ["var", "tvs"]
                n += 1
                yield "shadow", "block", "shadow", g, None
    # ---- prefixall: every rule-level clause sharing a first key
    roots = [s for s in base_sites if not s["in_filter"] and s["ctx"] and s["ctx"][0][0] == "file" and s["node"]["q"][0][0] == "key"
             and len(s["node"]["q"]) > 1 and s["node"]["q"][1][0] not in ("allidx", "filter")]
    if len(roots) >= 2:
        k0 = rng.choice(roots)["node"]["q"][0][1]
        g = gen.clone(f)
        cnt = 0
        for s in sites(g):
            nd = s["node"]
            if not s["in_filter"] and s["ctx"] and s["ctx"][0][0] == "file" and nd["q"][0] == ["key", k0] and len(nd["q"]) > 1 \
                    and nd["q"][1][0] not in ("allidx", "filter"):
                nd["q"] = [["var", "tva"]] + nd["q"][1:]
                cnt += 1
        if cnt >= 2:
            add_let(("file", g), "tva", ["query", [["key", k0]]])
            yield "prefixall", "file", "prefixall(%d refs)" % cnt, g, None
    # ---- unused lets
    for what, rhs in (("literal", ["lit", [1, "a"]]), ("resolving-query", ["query", [["key", next(iter(f.get("_dockeys", ["a"])))]]]),
                      ("unresolvable-query", ["query", [["key", "zz_nokey"], ["key", "y"]]]),
                      ("erroring-function", ["fn", "parse_int", [["lit", "not-a-number"]]]),
                      ("unresolvable-function-arg", ["fn", "to_upper", [["query", [["key", "zz_nokey"]]]]])):
        g = gen.clone(f)
        scopes = [("file", g)] + [("rule", r) for r in g["rules"] if not r.get("params")]
        blocks = [s["vis"][-1] for s in sites(g) if s["vis"] and s["vis"][-1][0] == "block"]
        scopes += blocks[:2]
        sc = rng.choice(scopes)
        add_let(sc, "tvu", rhs)
        yield "unused", sc[0], "unused:%s" % what, g, None


# --------------------------------------------------------------------------- inline (parameterised rules)

def gen_inline_case(rng, doc):
    """returns (P, P') ASTs: rule c { pr(args) }  vs  rule c { body[params := args] }"""
    o = gen.Opts(filters=True)
    nparams = rng.randint(1, 2)
    params = ["p%d" % i for i in range(nparams)]
    args = []
    for _ in params:
        if rng.random() < 0.65:
            q, v = gen.gen_walk(rng, doc, o, 3, allow_filter=rng.random() < 0.3)
            args.append(["query", gen.head_fix(q, True)])
        else:
            args.append(["lit", gen._pick_scalar_like(rng, None, o)])
    body, inl, forms = [], [], []
    for _ in range(rng.randint(1, 3)):
        i = rng.randrange(nparams)
        p, a = params[i], args[i]
        form = rng.choice(["lhs", "lhs-rest", "rhs", "unary", "block"]) if a[0] == "query" else "rhs"
        forms.append("%s/%s-arg" % (form, a[0]))
        if form == "lhs":
            op = rng.choice(["==", "<", ">=", "in"])
            rhs = gen.gen_rhs_lit(rng, None, o, op)
            body.append([gen.clause([["var", p]], op, rhs)])
            inl.append([gen.clause(gen.clone(a[1]), op, rhs)])
        elif form == "lhs-rest":
            k = rng.choice(gen.KEYS)
            rhs = gen.gen_rhs_lit(rng, None, o, "==")
            body.append([gen.clause([["var", p], ["key", k]], "==", rhs)])
            inl.append([gen.clause(gen.clone(a[1]) + [["key", k]], "==", rhs)])
        elif form == "unary":
            op = rng.choice(["exists", "is_string", "is_list", "is_struct", "is_int"])
            ng = rng.random() < 0.3
            body.append([gen.clause([["var", p]], op, None, opneg=ng)])
            inl.append([gen.clause(gen.clone(a[1]), op, None, opneg=ng)])
        elif form == "block":
            k = rng.choice(gen.KEYS)
            inner = [[gen.clause([["key", k]], "exists", None)]]
            body.append([{"t": "block", "some": False, "q": [["var", p]], "lets": [], "body": inner, "not_empty": False}])
            inl.append([{"t": "block", "some": False, "q": gen.clone(a[1]), "lets": [], "body": gen.clone(inner), "not_empty": False}])
        else:
            q, v = gen.gen_walk(rng, doc, o, 3, allow_filter=False)
            q = gen.head_fix(q, True)
            op = rng.choice(["==", "in"]) if a[0] == "lit" and isinstance(a[1], list) else "=="
            body.append([gen.clause(q, op, ["var", p])])
            inl.append([gen.clause(gen.clone(q), op, gen.clone(a))])
    P = {"lets": [], "default": [], "rules": [gen.rule("pr", body, params=params),
                                              gen.rule("c", [[{"t": "call", "neg": False, "name": "pr", "args": args}]])]}
    Q = {"lets": [], "default": [], "rules": [gen.rule("c", inl)]}
    P["_forms"] = forms
    return P, Q


def status_map(w, text, docs, events=False):
    res = w.run({"k": "rc", "data": docs, "rules": text, "verbose": False, "events": events})
    kind, st, fs = obs.rc_statuses(res)
    if kind == "ok":
        return dict(st), res
    if core.crash_signature(res):
        return "crash", res
    return "err:" + res.get("err", "")[:80], res


def shard(ctx):
    rng = ctx.rng("c15")
    o = gen.Opts(types=True, calls=False, vars=True, max_rules=3, max_lines=3, some_lets=True)
    nbase = 110 if ctx.quick else 3500
    for t in range(nbase):
        doc = gen.gen_doc(rng)
        docs = json.dumps(doc)
        f = gen.gen_file(rng, doc, o)
        f["_dockeys"] = list(doc.keys())[:1] or ["a"]
        fp = {k: v for k, v in f.items() if not k.startswith("_")}
        base_text = gen.pfile(fp)
        base, bres = status_map(ctx.w, base_text, docs, events=True)
        if not isinstance(base, dict):
            ctx.inconclusive("base-error" if base != "crash" else "base-crash")
            # an unused let must not change an error into a verdict either, but the property speaks of verdicts
            continue
        for label, level, detail, g, hyp in transforms(rng, f):
            g = {k: v for k, v in g.items() if not k.startswith("_")}
            text = gen.pfile(g)
            st, res = status_map(ctx.w, text, docs, events=True)
            ctx.res.cases += 1
            ctx.res.counts["%s@%s" % (label, level)] += 1
            if st == "crash":
                ctx.inconclusive("variant-crash")
                continue
            hows = set(e.split("|")[3] for e in (res.get("events") or []) if e.startswith("V|") and "|tv" in e)
            for h in hows:
                ctx.res.extra.setdefault("resolution_kinds_of_introduced_variables", core.Counter())[h] += 1
            same = (st == base) if isinstance(st, dict) else False
            if same:
                ctx.res.distinct.add((label, level, detail.split(":")[-1], tuple(sorted(set(st.values())))))
                if len(ctx.res.samples) < 2 and label == "prefix":
                    ctx.sample({"transform": detail, "base": base_text[:400], "variant": text[:400], "statuses": st})
                continue
            sig = "%s:%s" % (label, detail.split("(")[0])
            if hyp is not None:
                hyp2 = hyp.get("_hyp2")
                hyp = {k: v for k, v in hyp.items() if not k.startswith("_")}
                hst, _ = status_map(ctx.w, gen.pfile(hyp), docs)
                hsame = (hst == st) if isinstance(st, dict) else (not isinstance(hst, dict) and hst != "crash")
                if not hsame and hyp2 is not None:
                    hst2, _ = status_map(ctx.w, gen.pfile({k: v for k, v in hyp2.items() if not k.startswith("_")}), docs)
                    hsame = (hst2 == st) if isinstance(st, dict) else (not isinstance(hst2, dict) and hst2 != "crash")
                    ctx.res.counts["allidx_then_filter_chains_examined"] += 1
                sig += ":explained-by-variable-[*]-quirk" if hsame else ":other"
            if not isinstance(st, dict):
                what = "abstraction step turned a verdict into an error (%s): %s" % (detail, st)
            else:
                diff = {k: (base.get(k), st.get(k)) for k in set(base) | set(st) if base.get(k) != st.get(k)}
                what = "abstraction step %s changed verdicts (base, variant) %s" % (detail, diff)
            ctx.violation(sig, "%s\n--- base\n%s--- variant\n%s--- doc %s" % (what, base_text, text, docs[:300]),
                          {"kind": "pair", "a": base_text, "b": text, "data": docs})
    # ---- call volume: many calls of a parameterised rule in one evaluation (per element of a long list, and in sequence) == the inlined body
    if ctx.mine(4):
        for nel in (3, 70, 200):
            big = {"l": [{"n": i % 5, "s": "v%d" % i} for i in range(nel)], "k": 1}
            bigs = json.dumps(big)
            call = ("rule p(x) {\n    %x.n in [0, 1, 2, 3, 4]\n    %x.s exists\n}\nrule q(y) {\n    p(%y)\n}\n"
                    "rule each {\n    l[*] {\n        p(this)\n    }\n}\nrule nested {\n    l[*] {\n        q(this)\n    }\n}\n"
                    "rule seq {\n" + "".join("    p(l[%d])\n" % (i % nel) for i in range(90)) + "}\n"
                    "rule bad {\n    l[*] {\n        not p(this)\n    }\n}\n")
            inline = ("rule each {\n    l[*] {\n        this.n in [0, 1, 2, 3, 4]\n        this.s exists\n    }\n}\nrule nested {\n    l[*] {\n        this.n in [0, 1, 2, 3, 4]\n        this.s exists\n    }\n}\n"
                      "rule seq {\n" + "".join("    l[%d].n in [0, 1, 2, 3, 4]\n    l[%d].s exists\n" % (i % nel, i % nel) for i in range(90)) + "}\n"
                      "rule bad {\n    l[*] {\n        this.n not in [0, 1, 2, 3, 4] or this.s !exists\n    }\n}\n")
            for rep in range(2):        # twice in the same worker process: nothing may accumulate across evaluations either
                sa, _ = status_map(ctx.w, call, bigs)
                sb, _ = status_map(ctx.w, inline, bigs)
                ctx.res.cases += 1
                ctx.res.counts["call_volume_cases"] += 1
                if sa != sb:
                    ctx.violation("inline:call-volume", "%d elements: with calls %s, inlined %s" % (nel, sa, sb), {"kind": "pair", "a": call, "b": inline, "data": bigs})
                else:
                    ctx.res.distinct.add(("call-volume", nel, json.dumps(sa, sort_keys=True)[:60]))
    # ---- `let` inside a type block / query block is evaluated afresh for every resource / element (several resources of one type whose
    #      values differ, in both document orders)
    if ctx.mine(6):
        base_res = [("b1", "good-one", 1, ["a"]), ("b2", "bad-two", 2, []), ("b3", "good-three", 3, ["x", "y"])]
        forms = [("Properties.Name == /^good/", "let n = Properties.Name\n        %n == /^good/"),
                 ("Properties.Size <= 1", "let z = Properties.Size\n        %z <= 1"),
                 ("Properties.Tags !empty", "let tg = Properties.Tags[*]\n        %tg !empty"),
                 ("Properties.Name == /one$/ or Properties.Size >= 3", "let u = to_upper(Properties.Name)\n        %u == /ONE$/ or Properties.Size >= 3"),
                 ("Properties.Name == /two$/", "let s = some Properties.Name\n        %s == /two$/"),
                 ("Properties {\n            Size in [1, 3]\n        }", "Properties {\n            let q = Size\n            %q in [1, 3]\n        }")]
        for order in (base_res, base_res[::-1], base_res[1:] + base_res[:1]):
            ddoc = {"Resources": {nm: {"Type": "AWS::S3::Bucket", "Properties": {"Name": name, "Size": size, "Tags": tags}} for nm, name, size, tags in order}}
            ddocs = json.dumps(ddoc)
            for wrapper, wname in (("AWS::S3::Bucket {\n        %s\n    }", "typeblock"), ("Resources.*[ Type == 'AWS::S3::Bucket' ] {\n        %s\n    }", "filterblock"), ("Resources.* {\n        %s\n    }", "queryblock")):
                A = "".join("rule f%d {\n    %s\n}\n" % (i, wrapper % a_) for i, (a_, b_) in enumerate(forms))
                B = "".join("rule f%d {\n    %s\n}\n" % (i, wrapper % b_) for i, (a_, b_) in enumerate(forms))
                sa, _ = status_map(ctx.w, A, ddocs)
                sb, _ = status_map(ctx.w, B, ddocs)
                ctx.res.cases += 1
                ctx.res.counts["block_let_matrix"] += len(forms)
                if not isinstance(sa, dict) and not isinstance(sb, dict):
                    ctx.inconclusive("block-let-matrix-does-not-evaluate")
                elif sa != sb:
                    ctx.violation("block-let:%s" % wname, "a `let` inside a %s changes verdicts: in place %s, through the variable %s (resources in order %s)" % (wname, sa, sb, [x[0] for x in order]),
                                  {"kind": "pair", "a": A, "b": B, "data": ddocs})
                else:
                    ctx.res.distinct.add(("block-let", wname, json.dumps(sa, sort_keys=True)[:80]))
    # ---- key interpolation matrix: `x.%k OP` == `x.<key> OP` for every unary operator / comparison x value class x scope of the let
    if ctx.mine(2):
        kdoc = {"x": {"el": [], "em": {}, "es": "", "l": [1, 2], "m": {"a": 1}, "s": "ab", "n": 5, "nul": None, "b": True,
                      "le": [[], [1]], "lm": [{"a": 1}, {}]},
                "xs": [{"k": []}, {"k": [1]}, {"q": 1}]}
        kdocs = json.dumps(kdoc)
        ops = ["exists", "empty", "is_list", "is_struct", "is_string", "is_int", "is_null", "is_bool", "== 5", "== []", "in [5, \"ab\"]", "== /a/"]
        for key in list(kdoc["x"]) + ["zz_missing"]:
            names, lines = [], []
            for oi, op in enumerate(ops):
                for neg in ("", "not ", "!"):
                    if neg == "!" and not op[0].isalpha():
                        continue
                    sp = (neg + op) if op[0].isalpha() and neg == "!" else op
                    pre = neg if neg == "not " else ""
                    tag = "%d%s" % (oi, {"": "p", "not ": "n", "!": "b"}[neg])
                    lines.append("rule a%s {\n    %sx.%s %s\n}\n" % (tag, pre, key, sp))
                    lines.append("rule f%s {\n    %sx.%%kf %s\n}\n" % (tag, pre, sp))
                    lines.append("rule r%s {\n    let kr = \"%s\"\n    %sx.%%kr %s\n}\n" % (tag, key, pre, sp))
                    lines.append("rule b%s {\n    x {\n        let kb = \"%s\"\n        %sthis.%%kb %s\n    }\n}\n" % (tag, key, pre, sp))
                    lines.append("rule s%s {\n    %ssome xs[*].%%ks %s\n}\nrule t%s {\n    %ssome xs[*].k %s\n}\n" % (tag, pre, sp, tag, pre, sp))
                    names.append(tag)
            text = "let kf = \"%s\"\nlet ks = \"k\"\n" % key + "".join(lines)
            res = ctx.w.run({"k": "rc", "data": kdocs, "rules": text, "verbose": False})
            kind, st, _ = obs.rc_statuses(res)
            ctx.res.cases += 1
            if kind != "ok":
                # one erroring clause hides the others: evaluate the groups one by one
                st = {}
                for tag in names:
                    sub = "let kf = \"%s\"\nlet ks = \"k\"\n" % key + "".join(l for l in lines if re.match(r"rule [afrbst]%s " % re.escape(tag), l))
                    r1 = ctx.w.run({"k": "rc", "data": kdocs, "rules": sub, "verbose": False})
                    k1, s1, _ = obs.rc_statuses(r1)
                    if k1 == "ok":
                        st.update(s1)
                    else:
                        for pfx in "afrbst":
                            st[pfx + tag] = "ERR"
            for tag in names:
                base_st = st.get("a" + tag)
                for pfx, where in (("f", "file"), ("r", "rule"), ("b", "block")):
                    ctx.res.counts["keyvar-matrix"] += 1
                    ctx.res.distinct.add(("keyvar-matrix", where, tag, base_st))
                    if st.get(pfx + tag) != base_st:
                        ctx.violation("keyvar:matrix:%s" % where, "`x.%%k` with k = \"%s\" bound at %s level gives %s, `x.%s` gives %s (clause #%s)" % (key, where, st.get(pfx + tag), key, base_st, tag),
                                      {"kind": "pair", "a": "".join(l for l in lines if l.startswith("rule a%s " % tag)),
                                       "b": "let kf = \"%s\"\n" % key + "".join(l for l in lines if l.startswith("rule %s%s " % (pfx, tag))), "data": kdocs,
                                       "map": {pfx + tag: "a" + tag}})
                if st.get("s" + tag) != st.get("t" + tag):
                    ctx.violation("keyvar:matrix:some", "`some xs[*].%%k` gives %s, `some xs[*].k` gives %s (clause #%s)" % (st.get("s" + tag), st.get("t" + tag), tag),
                                  {"kind": "pair", "a": "", "b": text, "data": kdocs, "map": {"s" + tag: "t" + tag}})
    # ---- a `let` inside a `when` block shadows the outer variable of that name for the BODY only: the guard still reads the outer one
    if ctx.mine(5):
        wdoc = json.dumps({"Resources": {"a": {"Type": "T1"}, "b": {"Type": "T2"}}, "n": 5, "m": 6, "l": [{"k": 5, "v": 6}, {"k": 7, "v": 6}]})
        pairs = [
            ("when Resources.a.Type == 'T1' {\n        Resources.b.Type == 'T2'\n    }",
             "let sel = Resources.a\n    when %sel.Type == 'T1' {\n        let sel = Resources.b\n        %sel.Type == 'T2'\n    }"),
            ("when Resources.a.Type == 'T1' {\n        Resources.b.Type == 'T2'\n    }",
             "let sel = Resources.a\n    when %sel.Type == 'T1' {\n        let sel = Resources.b\n        Resources.b.Type == 'T2'\n    }"),
            ("when Resources.a.Type == 'T2' {\n        Resources.b.Type == 'T2'\n    }",
             "let sel = Resources.a\n    when %sel.Type == 'T2' {\n        let sel = Resources.b\n        %sel.Type == 'T2'\n    }"),
            ("when n == 5 {\n        m == 6\n    }", "when n == %lim {\n        let lim = 6\n        m == %lim\n    }"),
            ("when n == 5 {\n        m == 7\n    }", "when n == %lim {\n        let lim = 7\n        m == %lim\n    }"),
            ("l[*] {\n        when k == 5 {\n            v == 6\n        }\n    }", "l[*] {\n        let want = 5\n        when k == %want {\n            let want = 6\n            v == %want\n        }\n    }"),
            ("when n == 5 {\n        when m == 6 {\n            n == 5\n        }\n    }", "let x = 5\n    when n == %x {\n        let x = 6\n        when m == %x {\n            let x = 5\n            n == %x\n        }\n    }"),
        ]
        A = "".join("rule w%d {\n    %s\n}\n" % (i, a) for i, (a, _b) in enumerate(pairs))
        B = "let lim = 5\n" + "".join("rule w%d {\n    %s\n}\n" % (i, b) for i, (_a, b) in enumerate(pairs))
        sa, _ra = status_map(ctx.w, A, wdoc)
        sb, _rb = status_map(ctx.w, B, wdoc)
        ctx.res.cases += 1
        ctx.res.counts["when_shadow_matrix"] += len(pairs)
        if not isinstance(sa, dict) or not isinstance(sb, dict):
            ctx.inconclusive("when-shadow-matrix-does-not-evaluate")
        else:
            bad = sorted(k for k in sa if sa[k] != sb.get(k))
            if bad:
                ctx.violation("when-shadow:%s" % bad[0], "a `let` inside a `when` block changes what its guard sees: in place %s, with variables %s" % (sa, sb), {"kind": "pair", "a": A, "b": B, "data": wdoc})
            else:
                ctx.res.distinct.add(("when-shadow", json.dumps(sa, sort_keys=True)))
    # ---- the right-hand side of a `keys` filter taken from a literal-bound variable == the literal written in place
    if ctx.mine(4):
        mdoc = json.dumps({"m": {"web": 1, "db": 2, "log": 3, "lot": 3}, "me": {}, "wanted": ["webserver", "dbx", "log"], "one": ["web"]})
        rhss = ["'web'", "'nokey'", "['web', 'db']", "['nokey', 'log']", "/^lo/", "/zz/", "['web', 5]"]
        tails = ["!empty", "empty", "== 1", "in [1, 2]", "{\n        this >= 2\n    }"]
        names, lines = [], []
        for ri, rhs in enumerate(rhss):
            for op in ("==", "!=", "in", "not in"):
                if op in ("in", "not in") and not rhs.startswith("["):
                    continue
                if op in ("==", "!=") and rhs.startswith("["):
                    continue
                for ti, tail in enumerate(tails):
                    tag = "%d%s%d" % (ri, {"==": "e", "!=": "n", "in": "i", "not in": "x"}[op], ti)
                    names.append(tag)
                    lines.append("rule a%s {\n    m[ keys %s %s ] %s\n}\n" % (tag, op, rhs, tail))
                    lines.append("rule f%s {\n    m[ keys %s %%kf%d ] %s\n}\n" % (tag, op, ri, tail))
                    lines.append("rule r%s {\n    let kr = %s\n    m[ keys %s %%kr ] %s\n}\n" % (tag, rhs, op, tail))
                    lines.append("rule w%s {\n    when m exists {\n        let kw = %s\n        m[ keys %s %%kw ] %s\n    }\n}\n" % (tag, rhs, op, tail.replace("\n    ", "\n        ")))
        # names taken from the document: `keys == %names` is "equals one of the names" - the literal list with `in`
        for ti, tail in enumerate(tails):
            for qn, qsrc, litlist in (("qa", "wanted[*]", "['webserver', 'dbx', 'log']"), ("qb", "one[*]", "['web']"), ("qc", "wanted", "['webserver', 'dbx', 'log']")):
                tag = "%s%d" % (qn, ti)
                names.append(tag)
                lines.append("rule a%s {\n    m[ keys in %s ] %s\n}\n" % (tag, litlist, tail))
                for pfx in "frw":
                    lines.append("rule %s%s {\n    let kq = %s\n    m[ keys %s %%kq ] %s\n}\n" % (pfx, tag, qsrc, "==" if qn != "qc" else "in", tail))
        head = "".join("let kf%d = %s\n" % (ri, rhs) for ri, rhs in enumerate(rhss))
        res = ctx.w.run({"k": "rc", "data": mdoc, "rules": head + "".join(lines), "verbose": False})
        kind, st, _ = obs.rc_statuses(res)
        ctx.res.cases += 1
        if kind != "ok":
            ctx.inconclusive("crash" if core.crash_signature(res) else "keys-filter-matrix-does-not-evaluate")
        else:
            for tag in names:
                base_st = st.get("a" + tag)
                for pfx, where in (("f", "file"), ("r", "rule"), ("w", "when-block")):
                    ctx.res.counts["keysfilter-rhs-matrix"] += 1
                    ctx.res.distinct.add(("keysfilter-rhs", where, tag[1], base_st))
                    if st.get(pfx + tag) != base_st:
                        ctx.violation("keysfilter-rhs:matrix:%s" % where, "a keys filter against a variable bound (at %s level) to a literal gives %s, against the literal in place %s (clause #%s)" % (
                            where, st.get(pfx + tag), base_st, tag),
                                      {"kind": "pair", "a": "".join(l for l in lines if l.startswith("rule a%s " % tag)),
                                       "b": head + "".join(l for l in lines if l.startswith("rule %s%s " % (pfx, tag))), "data": mdoc, "map": {pfx + tag: "a" + tag}})
    # ---- a LIST of key names bound to a variable (`x.%kl`): the verdict of the same keys written one by one (absent keys included)
    if ctx.mine(3):
        kdoc = {"x": {"em": {}, "es": "", "l": [1, 2], "m": {"a": 1}, "s": "ab", "n": 5, "n2": 5, "nul": None}}
        pairs = [("l", "m"), ("l", "zz_missing"), ("zz_missing", "l"), ("zz_missing", "zz_other"), ("n", "n2"), ("s", "es"), ("em", "zz_missing"),
                 ("n", "zz_missing"), ("zz_missing", "n"), ("es", "em"), ("nul", "n")]   # no empty list: `[] == 5` is vacuous (DESIGN 5.3)
        kdoc["kl"] = {"p%d" % i: list(pr) for i, pr in enumerate(pairs)}
        kdocs = json.dumps(kdoc)
        ops = ["exists", "!exists", "empty", "!empty", "is_list", "is_string", "== 5", "!= 5", "in [5, [1, 2]]"]
        for pi, (k1, k2) in enumerate(pairs):
            lit = '["%s", "%s"]' % (k1, k2)
            lines, tags = [], []
            for oi, op in enumerate(ops):
                for pre in ("", "not "):
                    for some in (False, True):
                        tag = "%d%s%s" % (oi, "n" if pre else "p", "s" if some else "a")
                        tags.append(tag)
                        sm = "some " if some else ""
                        if some:
                            lines.append("rule a%s {\n    %sx.%s %s or\n    %sx.%s %s\n}\n" % (tag, pre, k1, op, pre, k2, op))
                        else:
                            lines.append("rule a%s {\n    %sx.%s %s\n    %sx.%s %s\n}\n" % (tag, pre, k1, op, pre, k2, op))
                        lines.append("rule f%s {\n    %s%sx.%%klf %s\n}\n" % (tag, pre, sm, op))
                        lines.append("rule r%s {\n    let klr = %s\n    %s%sx.%%klr %s\n}\n" % (tag, lit, pre, sm, op))
                        lines.append("rule q%s {\n    %s%sx.%%klq %s\n}\n" % (tag, pre, sm, op))
                        lines.append("rule c%s {\n    pk%s(%s)\n}\nrule pk%s(ks) {\n    %s%sx.%%ks %s\n}\n" % (tag, tag, lit, tag, pre, sm, op))
            head = "let klf = %s\nlet klq = kl.p%d\n" % (lit, pi)
            st = {}
            for tag in tags:
                sub = head + "".join(l for l in lines if re.match(r"rule [afrqc]%s " % re.escape(tag), l))
                r1 = ctx.w.run({"k": "rc", "data": kdocs, "rules": sub, "verbose": False})
                k1_, s1, _ = obs.rc_statuses(r1)
                ctx.res.cases += 1
                if k1_ == "ok":
                    st.update({k: v for k, v in s1.items() if not k.startswith("pk")})
                else:
                    # one erroring rule hides the others: one by one
                    for pfx in "afrqc":
                        sub1 = head + "".join(l for l in lines if l.startswith("rule %s%s " % (pfx, tag)))
                        r2 = ctx.w.run({"k": "rc", "data": kdocs, "rules": sub1, "verbose": False})
                        k2_, s2, _ = obs.rc_statuses(r2)
                        st[pfx + tag] = s2.get(pfx + tag) if k2_ == "ok" else "ERR"
            for tag in tags:
                base_st = st.get("a" + tag)
                for pfx, where in (("f", "file-literal"), ("r", "rule-literal"), ("q", "file-query"), ("c", "parameter")):
                    ctx.res.counts["keylist-matrix"] += 1
                    ctx.res.distinct.add(("keylist-matrix", where, tag[-2:], base_st, st.get(pfx + tag)))
                    if tag.endswith("s") and "ERR" in (base_st, st.get(pfx + tag)):
                        continue        # an `or` line stops at its first PASS, `some` looks at every value: an erroring later key is only seen by one of them
                    if st.get(pfx + tag) != base_st:
                        ctx.violation("keylist:matrix:%s" % where, "`x.%%kl` with kl = %s (%s) gives %s, the keys written one by one give %s (clause #%s)" % (lit, where, st.get(pfx + tag), base_st, tag),
                                      {"kind": "pair", "a": "".join(l for l in lines if l.startswith("rule a%s " % tag)),
                                       "b": head + "".join(l for l in lines if l.startswith("rule %s%s " % (pfx, tag))), "data": kdocs,
                                       "map": {pfx + tag: "a" + tag}})
    # ---- built-in functions of a literal: the literal passed as an argument of a parameterised rule whose body applies the function to the
    #      parameter, the same literal written in place, and the literal bound with `let` (rule and file level) agree
    if ctx.mine(6):
        FN = [("count(%s)", ['"prod"', "[80, 443]", "5", '{"a": 1}', "[]", '["a"]', "true"], ["== 0", "== 1", "== 2", ">= 1"]),
              ("to_upper(%s)", ['"prod"', '"Mixed"', '["a", "b"]'], ['== "PROD"', '== "MIXED"', "exists", "is_string"]),
              ("to_lower(%s)", ['"PROD"', '"Mixed"'], ['== "prod"', '== "mixed"', "is_string"]),
              ('join(%s, ",")', ['["a", "b"]', '"a"', '["a"]', "[]"], ['== "a,b"', '== "a"', "exists", "is_string", 'empty']),
              ('regex_replace(%s, "a", "b")', ['"banana"', '"x"'], ['== "bbnbnb"', '== "x"', "is_string"]),
              ("substring(%s, 0, 2)", ['"banana"', '"b"'], ['== "ba"', "exists", "is_string"]),
              ("parse_int(%s)", ['"12"', "12", '"x"', "1.5"], ["== 12", "== 1", "exists", "is_int"]),
              ("parse_float(%s)", ['"1.5"', "2", '"x"'], ["== 1.5", "== 2.0", "exists", "is_float"]),
              ("parse_boolean(%s)", ['"true"', "false", '"x"'], ["== true", "== false", "exists", "is_bool"]),
              ("parse_string(%s)", ["12", "true", '"s"', "1.5"], ['== "12"', '== "true"', '== "s"', "is_string"]),
              ("parse_char(%s)", ['"1"', "1", '"ab"'], ['== "1"', "exists"]),
              ("json_parse(%s)", ['\'{"a": 1}\'', '"[1, 2]"', '"5"'], ["exists", "is_struct", "is_list", "== 5"]),
              ("url_decode(%s)", ['"a%20b"', '"plain"'], ['== "a b"', '== "plain"', "is_string"])]
        fdocs = json.dumps({"x": 1})
        for fn, lits, cls in FN:
            fname = fn.split("(")[0]
            for lit in lits:
                for cl in cls:
                    forms = {"call": "rule pr(x) {\n    let n = %s\n    %%n %s\n}\nrule c {\n    pr(%s)\n}\n" % (fn % "%x", cl, lit),
                             "inline": "rule c {\n    let n = %s\n    %%n %s\n}\n" % (fn % lit, cl),
                             "rule-let": "rule c {\n    let x = %s\n    let n = %s\n    %%n %s\n}\n" % (lit, fn % "%x", cl),
                             "file-let": "let x = %s\nlet n = %s\nrule c {\n    %%n %s\n}\n" % (lit, fn % "%x", cl)}
                    got = {}
                    for nm, text in forms.items():
                        st, _ = status_map(ctx.w, text, fdocs)
                        ctx.res.cases += 1
                        got[nm] = st.get("c") if isinstance(st, dict) else ("crash" if st == "crash" else "ERR")
                    ctx.res.counts["function-of-literal"] += 1
                    if "crash" in got.values():
                        ctx.inconclusive("function-of-literal-crash")
                        continue
                    for nm in ("inline", "rule-let", "file-let"):
                        if got[nm] != got["call"]:
                            ctx.violation("function-of-literal:%s:%s" % (fname, nm), "`%s` of the literal %s: the parameterised call gives %s, the %s form gives %s (clause `%%n %s`)" % (
                                fname, lit, got["call"], nm, got[nm], cl), {"kind": "pair", "a": forms["call"], "b": forms[nm], "data": fdocs, "only": ["c"]})
                    if len(set(got.values())) == 1:
                        ctx.res.distinct.add(("function-of-literal", fname, got["call"]))
    # ---- every reference to a variable sees the same value (file / rule / block level; query, `some` query,
    #      filtered query, literal list and function-call bindings)
    n3 = 120 if ctx.quick else 4000
    o3 = gen.Opts(filters=True)
    for t in range(n3):
        doc = gen.gen_doc(rng)
        docs = json.dumps(doc)
        q, v = gen.gen_walk(rng, doc, o3, 3, allow_filter=rng.random() < 0.4)
        q = gen.head_fix(q, True)
        kind = rng.choice(["query", "somequery", "somequery", "literal", "function"])
        if kind == "literal":
            bind = ["lit", [gen._pick_scalar_like(rng, None, o3) for _ in range(rng.randint(1, 3))]]
        elif kind == "function":
            bind = ["fn", rng.choice(["to_upper", "to_lower", "parse_string", "count"]), [["query", q]]]
        else:
            bind = [kind, q]
        rest = []
        if kind in ("query", "somequery") and isinstance(v, (dict, list)) and v and rng.random() < 0.5:
            rest, _ = gen.gen_walk(rng, v if isinstance(v, dict) else rng.choice(v), o3, 2, allow_filter=False)
            rest = [p_ for p_ in rest if p_[0] in ("key", "all", "idx")]
        op = rng.choice(["exists", "empty", "is_string", "==", "==", "in", "!="])
        opneg = False
        if op == "!=":
            op, opneg = "==", True
        if op in ("==", "in"):
            rhs = gen.gen_rhs_lit(rng, v if not isinstance(v, (list, dict)) else None, o3, op)
        else:
            rhs = None
        cl = gen.clause([["var", "sv"]] + rest, op, rhs, opneg=opneg, some=rng.random() < 0.15)
        level = rng.choice(["file", "rule", "block"])
        if level == "file":
            P = {"lets": [["sv", bind]], "default": [], "rules": [gen.rule("r%d" % i, [[gen.clone(cl)]]) for i in range(3)]}
            names = ["r0", "r1", "r2"]
        elif level == "rule":
            P = {"lets": [], "default": [], "rules": [gen.rule("r0", [[gen.clone(cl)]], lets=[["sv", gen.clone(bind)]]),
                                                      gen.rule("r1", [[gen.clone(cl)], [gen.clone(cl)], [gen.clone(cl)]], lets=[["sv", gen.clone(bind)]])]}
            names = ["r0", "r1"]
        else:
            def blk(k):
                return {"t": "when", "cond": [[gen.clause([["this"]], "exists", None)]], "lets": [["sv", gen.clone(bind)]], "body": [[gen.clone(cl)] for _ in range(k)]}
            P = {"lets": [], "default": [], "rules": [gen.rule("r0", [[blk(1)]]), gen.rule("r1", [[blk(3)]])]}
            names = ["r0", "r1"]
        text = gen.pfile(P)
        st, res = status_map(ctx.w, text, docs, events=True)
        ctx.res.cases += 1
        ctx.res.counts["samevalue@%s" % level] += 1
        if not isinstance(st, dict):
            ctx.inconclusive("samevalue-" + ("crash" if st == "crash" else "error"))
            continue
        got = [st.get(nm) for nm in names]
        if len(set(got)) != 1:
            ctx.violation("samevalue:%s:%s" % (level, kind), "identical clauses on one variable (%s-level, %s binding) evaluate differently: %s\n%s--- doc %s" % (level, kind, got, text, docs[:300]),
                          {"kind": "samevalue", "a": text, "names": names, "data": docs})
        else:
            ctx.res.distinct.add(("samevalue", level, kind, got[0]))
    # ---- inline
    n = 150 if ctx.quick else 5000
    for t in range(n):
        doc = gen.gen_doc(rng)
        docs = json.dumps(doc)
        P, Q = gen_inline_case(rng, doc)
        a, b = gen.pfile({k: v for k, v in P.items() if k != "_forms"}), gen.pfile(Q)
        sa, ra = status_map(ctx.w, a, docs)
        sb, rb = status_map(ctx.w, b, docs)
        ctx.res.cases += 1
        ctx.res.counts["inline"] += 1
        if not isinstance(sa, dict) or not isinstance(sb, dict):
            if sa == "crash" or sb == "crash":
                ctx.inconclusive("inline-crash")
            elif isinstance(sa, dict) != isinstance(sb, dict):
                used = set(json.dumps(P["rules"][0]["body"]).count('"%s"' % prm) > 0 and prm for prm in P["rules"][0]["params"]) - {False}
                unused = [prm for prm in P["rules"][0]["params"] if prm not in used]
                ctx.violation("inline:error-mismatch" + (":argument-of-unused-parameter-errors" if unused and not isinstance(sa, dict) else ""), "inlining changes error behaviour: call=%s inline=%s\n%s---\n%s--- doc %s" % (sa, sb, a, b, docs[:300]),
                              {"kind": "pair", "a": a, "b": b, "data": docs, "only": ["c"]})
            else:
                ctx.inconclusive("inline-both-error")
            continue
        if sa.get("c") != sb.get("c"):
            # attribute to the body line(s) that differ on their own
            forms = P["_forms"]
            culprits = set()
            for i in range(len(forms)):
                P1 = {"lets": [], "default": [], "rules": [gen.rule("pr", [P["rules"][0]["body"][i]], params=P["rules"][0]["params"]), P["rules"][1]]}
                Q1 = {"lets": [], "default": [], "rules": [gen.rule("c", [Q["rules"][0]["body"][i]])]}
                s1, _ = status_map(ctx.w, gen.pfile(P1), docs)
                s2, _ = status_map(ctx.w, gen.pfile(Q1), docs)
                if not (isinstance(s1, dict) and isinstance(s2, dict) and s1.get("c") == s2.get("c")):
                    culprits.add(forms[i])
            sig = "inline:" + (",".join(sorted(culprits)) if culprits else "combination")
            ctx.violation(sig, "parameterised call %s vs inlined body %s\n%s---\n%s--- doc %s" % (sa.get("c"), sb.get("c"), a, b, docs[:300]),
                          {"kind": "pair", "a": a, "b": b, "data": docs, "only": ["c"]})
        else:
            ctx.res.distinct.add(("inline", sa.get("c"), tuple(sorted(set(P["_forms"])))))
        # how one argument is written must not change what another parameter is bound to: write a query argument as `some <query>`
        # (or swap in an unrelated literal) for a parameter the body never reads, the verdict of the call stays the same
        prule, crule = P["rules"][0], P["rules"][1]
        used = set(re.findall(r"%(p\d)", gen.pfile({"lets": [], "default": [], "rules": [prule]})))
        cargs = crule["body"][0][0]["args"]
        idle = [i for i, prm in enumerate(prule["params"]) if prm not in used]
        if idle and len(cargs) > 1 and isinstance(sa, dict):
            i = idle[0]
            for how in ("some", "literal"):
                P2 = gen.clone({k: v for k, v in P.items() if not k.startswith("_")})
                a2 = P2["rules"][1]["body"][0][0]["args"]
                if how == "some":
                    if a2[i][0] != "query":
                        continue
                    a2[i] = ["somequery", a2[i][1]]
                else:
                    a2[i] = ["lit", "zz-unrelated"]
                t2 = gen.pfile(P2)
                s2, _ = status_map(ctx.w, t2, docs)
                ctx.res.cases += 1
                ctx.res.counts["idle-argument:" + how] += 1
                if isinstance(s2, dict) and s2.get("c") != sa.get("c"):
                    ctx.violation("inline:idle-argument:%s" % how, "rewriting the argument of an unused parameter (%s) changes the call's verdict: %s vs %s\n%s---\n%s--- doc %s" % (
                        how, sa.get("c"), s2.get("c"), a, t2, docs[:300]), {"kind": "pair", "a": a, "b": t2, "data": docs, "only": ["c"]})


def replay(case, w):
    if case.get("kind") == "samevalue":
        st, _ = status_map(w, case["a"], case["data"])
        if not isinstance(st, dict):
            return True, "error"
        got = [st.get(n) for n in case["names"]]
        return len(set(got)) == 1, str(got)
    if case.get("map"):
        # names in b whose status must equal the status of a name in a (or in b itself when a is empty)
        sb, _ = status_map(w, case["b"], case["data"])
        sa = status_map(w, case["a"], case["data"])[0] if case["a"] else sb
        if not isinstance(sa, dict) or not isinstance(sb, dict):
            return (not isinstance(sa, dict)) and (not isinstance(sb, dict)), "a=%s b=%s" % (sa, sb)
        bad = {k: (sb.get(k), sa.get(v)) for k, v in case["map"].items() if sb.get(k) != sa.get(v)}
        return not bad, str(bad)
    sa, _ = status_map(w, case["a"], case["data"])
    sb, _ = status_map(w, case["b"], case["data"])
    if case.get("only") and isinstance(sa, dict) and isinstance(sb, dict):
        sa = {k: sa.get(k) for k in case["only"]}
        sb = {k: sb.get(k) for k in case["only"]}
    return sa == sb, "a=%s b=%s" % (sa, sb)


def main(tier, seed):
    t0 = time.time()
    core.build()
    res = core.run_shards(shard, seed, tier, "C15")
    c = res.counts
    levels = sum(1 for k in ("lit@file", "lit@rule", "lit@block", "prefix@file", "prefix@rule", "prefix@block") if c[k] >= (200 if tier == "thorough" else 40))
    floor = {"cases": (res.cases, 3000), "transform_x_scope_levels": (levels, 6), "unused": (c["unused@file"] + c["unused@rule"] + c["unused@block"], 100),
             "inline": (c["inline"], 100), "shadow": (c["shadow@block"], 20),
             "samevalue": (c["samevalue@file"] + c["samevalue@rule"] + c["samevalue@block"], 300)}
    return core.finish("C15", tier, seed, res, t0,
                       rule="every (sampled, <=12 per program) abstraction site of random programs x one document: literal->%v at file/rule/block scope, "
                            "query prefix->%v in a same-context scope, all-references variant, unused lets, shadowing, and inlining of parameterised-rule calls; "
                            "distinct = (transform, scope level, detail, set of statuses)",
                       floor=floor,
                       assumptions=["`q empty` -> `%v empty` is skipped (documented exception)", "clauses inside filters only get the literal transform"])
