"""C19 - generated rules describe the template they were generated from.

For generated CloudFormation-shaped templates `cfn-guard rulegen` (real process) must either report an
error or emit text that parses to one rule per resource type that has properties; validating the source
template against the emitted rules must PASS every rule, and changing one scalar property value to a
value not present for that type+property must make that type's rule FAIL.
"""
import json
import os
import re
import shutil
import subprocess
import time

from .. import core, gen, obs

NEED_CLI = True
TYPES = ["AWS::S3::Bucket", "AWS::EC2::Volume", "AWS::IAM::Role", "Custom::Thing", "Custom::Log-Forwarder", "Custom::team@thing"]
PROPS = ["Name", "Size", "Encrypted", "Tags", "Policy", "Zone"]
STR_PLAIN = ["us-west-2a", "my-bucket", "x", "arn:aws:iam::123:role/r", "a b", "v1.2"]
STR_ODD = {"leading-space": " lead", "trailing-space": "trail ", "inner-quote": 'say "hi"', "hash": "a #b", "slash": "a/b/c", "unicode": "grüße-日本",
           "digits": "0042", "bool-like": "true", "backslash": "^\\d+$", "single-quote": "it's", "empty": "", "tab": "a\tb", "brace": "{x}", "bracket": "[x]",
           "comma": "a, b", "colon": "k: v", "float-like": "1.50", "double-space": "data  volume", "many-spaces": "a   b    c"}


def gen_value(rng, classes):
    r = rng.random()
    if r < 0.35:
        classes.add("plain-string")
        return rng.choice(STR_PLAIN)
    if r < 0.55:
        c = rng.choice(sorted(STR_ODD))
        classes.add("string:" + c)
        return STR_ODD[c]
    if r < 0.66:
        classes.add("int")
        return rng.choice([0, 1, 50, 500, -3, 9007199254740993, -9223372036854775808])
    if r < 0.73:
        c = rng.choice(["fraction", "integral", "exponent"])
        classes.add("float:" + c)
        return rng.choice({"fraction": [0.5, 2.5, -0.125], "integral": [75.0, 100.0, -1.0, 0.0], "exponent": [1e16, 1.5e-7, 1e300]}[c])
    if r < 0.8:
        classes.add("bool")
        return rng.choice([True, False])
    if r < 0.9:
        if rng.random() < 0.4:
            # strings with unusual content nested inside a list value (tags, statements): they are part of the value as well
            c = rng.choice(sorted(STR_ODD))
            classes.add("list-with-string:" + c)
            return rng.choice([[{"Key": "Name", "Value": STR_ODD[c]}], [STR_ODD[c], "c"]])
        classes.add("list")
        return rng.choice([[1, 2], ["a", "b"], [{"Key": "k", "Value": "v"}], []])
    if rng.random() < 0.4:
        c = rng.choice(sorted(STR_ODD))
        classes.add("map-with-string:" + c)
        return rng.choice([{"Description": STR_ODD[c]}, {"Statement": [{"Sid": STR_ODD[c], "Effect": "Allow"}]}])
    classes.add("map")
    return rng.choice([{"a": 1}, {"Version": "2012", "Statement": [{"Effect": "Allow"}]}, {}])


def gen_template(rng):
    classes = set()
    nres = rng.randint(1, 5)
    types = rng.sample(TYPES, rng.randint(1, 3))
    res = {}
    uniform = rng.random() < 0.7       # same property names for all resources of a type
    tprops = {t: rng.sample(PROPS, rng.randint(1, 4)) for t in types}
    pool = {}
    for i in range(nres):
        t = rng.choice(types)
        r = {"Type": t}
        if rng.random() < 0.92:
            props = {}
            names = tprops[t] if uniform else rng.sample(PROPS, rng.randint(1, 4))
            for p in names:
                if (t, p) in pool and rng.random() < 0.15:
                    # the same text with another type in a second resource ("50" and 50, "true" and true): both spellings must survive
                    x = rng.choice(pool[(t, p)])
                    if isinstance(x, (bool, int, float)):
                        props[p] = json.dumps(x)
                        classes.add("same-text-other-type")
                    elif isinstance(x, str) and re.match(r"^-?[1-9]\d{0,8}$", x):
                        props[p] = int(x)
                        classes.add("same-text-other-type")
                    else:
                        props[p] = x
                elif (t, p) in pool and rng.random() < 0.4:
                    props[p] = rng.choice(pool[(t, p)])       # repeated value across resources
                else:
                    props[p] = gen_value(rng, classes)
                pool.setdefault((t, p), []).append(props[p])
            r["Properties"] = props
        else:
            classes.add("no-properties")
        res["Res%d" % i] = r
    if not uniform:
        classes.add("non-uniform-properties")
    if rng.random() < 0.15:
        # one property that is a list in one resource and a map / bool / null in its sibling (`[sg-1, sg-2]` next to `{Ref: SgList}`)
        t = types[0]
        res["MixA"] = {"Type": t, "Properties": {"MixedP": rng.choice([["sg-1", "sg-2"], [1, 2, 3], ["only"]])}}
        res["MixB"] = {"Type": t, "Properties": {"MixedP": rng.choice([{"Ref": "SgList"}, True, None, {"Fn::GetAtt": ["a", "b"]}])}}
        classes.add("list-next-to-map")
    if rng.random() < 0.15:
        # a fleet: many resources of one type whose values for one property are all different (a long IN list)
        t = types[0]
        n_ = rng.randint(7, 19)
        base_ = rng.randint(1, 50)
        kind_ = rng.random()
        for i in range(n_):
            v_ = (base_ + 10 * i) if kind_ < 0.5 else ("name-%d-%d" % (base_, i))
            res["Fleet%02d" % i] = {"Type": t, "Properties": {"FleetSize": v_, "Zone": "z%d" % (i % 3)}}
        classes.add("many-values")
    return {"Resources": res}, classes


def expected_rule_names(tpl):
    names = set()
    for r in tpl["Resources"].values():
        if isinstance(r.get("Properties"), dict) and r["Properties"]:
            names.add(r["Type"].replace("::", "_").lower())
    return names


def mutate(rng, tpl):
    """change one scalar property value to a value not present for that type+property; returns (tpl', rule name)"""
    cands = []
    for rn, r in tpl["Resources"].items():
        for p, v in (r.get("Properties") or {}).items():
            if isinstance(v, (str, int, bool)) and not isinstance(v, (list, dict)):
                cands.append((rn, p))
    if not cands:
        return None, None
    rn, p = rng.choice(cands)
    t = tpl["Resources"][rn]["Type"]
    present = [json.dumps(r["Properties"][p]) for r in tpl["Resources"].values() if r["Type"] == t and p in (r.get("Properties") or {})]
    old = tpl["Resources"][rn]["Properties"][p]
    for cand in ["zzz-not-there", 987654, "other value"]:
        if json.dumps(cand) not in present and (not isinstance(old, str) or True):
            new = cand
            break
    t2 = json.loads(json.dumps(tpl))
    t2["Resources"][rn]["Properties"][p] = new
    return t2, t.replace("::", "_").lower()


def run_rulegen(path):
    try:
        p = subprocess.run([core.CLI_BIN, "rulegen", "-t", path], stdout=subprocess.PIPE, stderr=subprocess.PIPE, timeout=60)
        return p.returncode, p.stdout.decode("utf-8", "replace"), p.stderr.decode("utf-8", "replace")
    except subprocess.TimeoutExpired:
        return None, "", "timeout"


def check_template(ctx, rng, tpl, classes, sdir):
    path = os.path.join(sdir, "t.json")
    as_yaml = rng.random() < 0.3
    with open(path, "w") as f:
        f.write(json.dumps(tpl, indent=1))
    cls = ",".join(sorted(classes)) or "plain"
    case = {"template": tpl}
    ctx.res.cases += 1
    outs = []
    for k in range(2):        # twice: a verdict that depends on hash order shows up as flakiness
        code, out, err = run_rulegen(path)
        outs.append((code, out, err))
    code, out, err = outs[0]
    if code is None or code < 0 or code in (101, 134):
        ctx.inconclusive("rulegen-crash (C08)")
        ctx.res.counts["crash:" + (err.strip().splitlines()[0][:60] if err.strip() else str(code))] += 1
        return
    if outs[0][1] != outs[1][1]:
        ctx.violation("rulegen:nondeterministic-output", "two runs of rulegen on the same template print different rules", case)
        return
    if err.strip() or code != 0:
        ctx.res.distinct.add(("error-reported", cls))
        ctx.res.counts["error_reported"] += 1
        return
    # --output <file>: the file must hold exactly what is printed without the option, also when it existed before (longer, shorter, other content)
    opath = os.path.join(sdir, "out.guard")
    pre = rng.choice([None, "", "# stale\n" * 4000, "rule stale_rule {\n    a == 1\n}\n" * 300, out + "rule leftover {\n    b exists\n}\n"])
    if pre is None:
        if os.path.exists(opath):
            os.unlink(opath)
    else:
        open(opath, "w").write(pre)
    c2 = subprocess.run([core.CLI_BIN, "rulegen", "-t", path, "-o", opath], stdout=subprocess.PIPE, stderr=subprocess.PIPE, timeout=120)
    ctx.res.counts["output_file_runs"] += 1
    try:
        written = open(opath).read()
    except OSError:
        written = None
    if c2.returncode == 0 and written != out:
        how = "missing" if written is None else ("stale tail kept" if written.startswith(out) else "differs")
        ctx.violation("rulegen:output-file:%s" % how.replace(" ", "-"), "`rulegen -o file` (file %s before) left %s in the file: %d bytes vs %d bytes on stdout" % (
            "absent" if pre is None else "%d bytes" % len(pre), how, len(written or ""), len(out)), dict(case, pre=pre))
        return
    want_names = expected_rule_names(tpl)
    if not out.strip():
        if want_names:
            ctx.violation("rulegen:empty-output:%s" % cls, "no rules emitted for types %s" % sorted(want_names), case)
        return
    pt = ctx.w.run({"k": "cli", "argv": ["parse-tree", "-p"], "stdin": out})
    if pt.get("r") != "ok":
        ctx.violation("rulegen:output-does-not-parse:%s" % cls, "emitted text is not a rules file: %s\n%s" % (pt.get("emsg", "")[:200], out[:500]), case)
        return
    got_names = set(r["rule_name"] for r in json.loads(pt["out"]).get("guard_rules", []))
    if got_names != want_names:
        ctx.violation("rulegen:rule-set:%s" % cls, "emitted rules %s, resource types with properties %s" % (sorted(got_names), sorted(want_names)), case)
        return
    r = ctx.w.run({"k": "cli", "argv": ["validate", "-r", "{S}/g.guard", "-d", "{S}/t.json", "--structured", "-S", "none", "-o", "json"],
                   "files": {"g.guard": out, "t.json": json.dumps(tpl)}})
    if r.get("r") != "ok":
        if core.crash_signature(r):
            ctx.inconclusive("validate-crash")
        else:
            ctx.violation("self-validation:error:%s" % cls, "validating the template against its generated rules fails with an error: %s" % r.get("emsg", "")[:200], dict(case, rules=out))
        return
    st = obs.report_statuses(json.loads(r["out"])[0])
    bad = {k: v for k, v in st.items() if v != ["PASS"]}
    for c in classes:
        ctx.res.extra.setdefault("value_classes", set()).add(c)
    if " IN [" in out:
        ctx.res.counts["emitted_IN"] += 1
    if " == " in out:
        ctx.res.counts["emitted_EQ"] += 1
    if bad:
        # attribute to the value classes of the failing checks
        why = attribute(json.loads(r["out"])[0], tpl)
        for kind in why.split(","):
            ctx.violation("self-validation:%s" % kind, "generated rules do not PASS on their own template (%s): %s\n%s" % (kind, bad, out[:600]), dict(case, rules=out))
        return
    ctx.res.distinct.add(("self-pass", cls))
    # ---- mutation must be detected
    t2, rname = mutate(rng, tpl)
    if t2 is not None:
        r2 = ctx.w.run({"k": "cli", "argv": ["validate", "-r", "{S}/g.guard", "-d", "{S}/t.json", "--structured", "-S", "none", "-o", "json"],
                        "files": {"g.guard": out, "t.json": json.dumps(t2)}})
        ctx.res.counts["mutations"] += 1
        if r2.get("r") == "ok":
            st2 = obs.report_statuses(json.loads(r2["out"])[0])
            if st2.get(rname) != ["FAIL"]:
                ctx.violation("mutation-not-detected:%s" % cls, "changing a property value leaves rule %s at %s" % (rname, st2.get(rname)), dict(case, rules=out, mutated=t2))
                return
            ctx.res.distinct.add(("mutation-detected", cls))
    if len(ctx.res.samples) < 2:
        ctx.sample({"template": tpl, "emitted_rules": out[:600], "self_validation": st})


def attribute(report, tpl):
    """classify why self-validation failed from the failing checks' paths"""
    kinds = set()

    def walk(e):
        (k, v), = e.items()
        if k in ("Rule", "Disjunctions"):
            for c in v.get("checks", []):
                walk(c)
        elif k == "Clause":
            (ck, cv), = v.items()
            chk = cv.get("check") or {}
            if "UnResolved" in chk:
                kinds.add("property-missing-on-some-resource")
                return
            for form in ("Resolved", "InResolved"):
                if form in chk:
                    val = chk[form].get("from", {}).get("value")
                    if isinstance(val, str):
                        c = [n for n, s in STR_ODD.items() if s == val]
                        kinds.add("string:" + (c[0] if c else "plain"))
                    elif isinstance(val, bool):
                        kinds.add("bool")
                    elif isinstance(val, int):
                        kinds.add("int")
                    elif isinstance(val, list):
                        to_ = chk[form].get("to")
                        tv_ = (to_[0].get("value") if isinstance(to_, list) and to_ else (to_ or {}).get("value")) if to_ else None
                        if isinstance(tv_, list) and tv_ and isinstance(tv_[0], list):
                            # the candidates start with a list: `IN` then compares whole lists - a list-valued property next to map / bool / null values
                            kinds.add("list-valued-property:candidates-start-with-a-list")
                        else:
                            kinds.add("list-valued-property-mixed-with-other-values")
                    elif isinstance(val, dict):
                        kinds.add("map")
        else:
            kinds.add("block")
    for e in report.get("not_compliant", []):
        walk(e)
    return ",".join(sorted(kinds)) or "unknown"


TAGGED_PROPS = [
    "!Ref Image", '!Sub "${AWS::StackName}-x"', "!GetAtt other.Arn", "!GetAtt [other, Arn]", '!Join ["", [a, !Ref b]]', '!Select [0, !GetAZs ""]',
    '!Split [",", "a,b"]', "!ImportValue\n        Fn::Sub: \"${Net}-subnet\"", "!Base64 {Fn::Sub: abc}", "!Ref 123", '!Join "x"', "!Ref [a]",
    "!If [c, 1, 2]", "!FindInMap [m, k, v]", "!Base64\n        Fn::Join: ['', [a, b]]", "plain", "5", "!Condition c", "!Cidr [a, 2, 3]",
]


def check_tagged(ctx, rng, sdir):
    """YAML templates written with CloudFormation short-form tags (on scalars, sequences AND mappings): rulegen may refuse them, but whatever it
    emits must hold on the very text it was generated from"""
    types = rng.sample(["AWS::EC2::Instance", "AWS::SNS::Topic", "AWS::S3::Bucket"], rng.randint(1, 3))
    lines = ["Resources:"]
    for i in range(rng.randint(1, 4)):
        lines += ["  r%d:" % i, "    Type: %s" % rng.choice(types), "    Properties:"]
        for j in range(rng.randint(1, 4)):
            lines.append("      P%d: %s" % (j, rng.choice(TAGGED_PROPS)))
    text = "\n".join(lines) + "\n"
    path = os.path.join(sdir, "tagged.yaml")
    open(path, "w").write(text)
    case = {"kind": "tagged", "text": text}
    ctx.res.cases += 1
    code, out, err = run_rulegen(path)
    if code is None or code < 0 or code in (101, 134):
        ctx.inconclusive("rulegen-crash (C08)")
        return
    if err.strip() or code != 0 or not out.strip():
        ctx.res.counts["tagged_templates_refused"] += 1
        ctx.res.distinct.add(("tagged", "error-reported"))
        return
    ctx.res.counts["tagged_templates_accepted"] += 1
    pt = ctx.w.run({"k": "cli", "argv": ["parse-tree", "-p"], "stdin": out})
    if pt.get("r") != "ok":
        ctx.violation("rulegen:tagged-template:output-does-not-parse", "emitted text is not a rules file: %s" % pt.get("emsg", "")[:200], case)
        return
    r = ctx.w.run({"k": "cli", "argv": ["validate", "-r", "{S}/g.guard", "-d", "{S}/tagged.yaml", "--structured", "-S", "none", "-o", "json"],
                   "files": {"g.guard": out, "tagged.yaml": text}})
    if r.get("r") != "ok":
        if core.crash_signature(r):
            ctx.inconclusive("validate-crash")
        else:
            ctx.violation("rulegen:tagged-template:self-validation-error", "validating the tagged template against its generated rules fails: %s" % r.get("emsg", "")[:200], dict(case, rules=out))
        return
    st = obs.report_statuses(json.loads(r["out"])[0])
    bad = {k: v for k, v in st.items() if v != ["PASS"]}
    if bad:
        # the listed finding `property-missing-on-some-resource` (resources of one type with different property names) can occur here as well:
        # when every failing check is an unresolved property it is that defect, whatever the template is written with
        why = attribute(json.loads(r["out"])[0], None)
        if why == "property-missing-on-some-resource":
            ctx.violation("self-validation:property-missing-on-some-resource", "generated rules do not PASS on their own (tagged) template: %s\n%s" % (bad, out[:500]), dict(case, rules=out))
        else:
            ctx.violation("rulegen:tagged-template:self-validation", "rules generated from a template with short-form tags do not PASS on that template (%s): %s\n%s" % (why, bad, out[:500]), dict(case, rules=out))
    else:
        ctx.res.distinct.add(("tagged", "self-pass"))


def shard(ctx):
    rng = ctx.rng("c19")
    sdir = os.path.join(core.SCRATCH, "c19-%d-%d" % (os.getpid(), ctx.shard))
    os.makedirs(sdir, exist_ok=True)
    n = 25 if ctx.quick else 3000
    try:
        for t in range(n):
            tpl, classes = gen_template(rng)
            check_template(ctx, rng, tpl, classes, sdir)
            if t % 3 == 0:
                check_tagged(ctx, rng, sdir)
    finally:
        shutil.rmtree(sdir, ignore_errors=True)


def replay(case, w):
    import random
    res = core.ShardResult()
    found = []

    class Ctx(core.Ctx):
        def violation(self, sig, what, rp):
            found.append(sig)
    c = Ctx(w, 0, 1, 1, "quick", res, {"prop": "C19"})
    sdir = os.path.join(core.SCRATCH, "c19-replay-%d" % os.getpid())
    os.makedirs(sdir, exist_ok=True)
    try:
        if case.get("kind") == "tagged":
            check_tagged_text = case["text"]       # replay the stored text itself
            path = os.path.join(sdir, "tagged.yaml")
            open(path, "w").write(check_tagged_text)
            code, out, err = run_rulegen(path)
            if code == 0 and out.strip() and not err.strip():
                r = w.run({"k": "cli", "argv": ["validate", "-r", "{S}/g.guard", "-d", "{S}/tagged.yaml", "--structured", "-S", "none", "-o", "json"],
                           "files": {"g.guard": out, "tagged.yaml": check_tagged_text}})
                if r.get("r") != "ok":
                    found.append("self-validation-error")
                else:
                    st = obs.report_statuses(json.loads(r["out"])[0])
                    if any(v != ["PASS"] for v in st.values()):
                        found.append("self-validation")
            return not found, "violations: %s" % found
        check_template(c, random.Random(1), case["template"], set(), sdir)
    finally:
        shutil.rmtree(sdir, ignore_errors=True)
    return not found, "violations: %s" % found


def main(tier, seed):
    t0 = time.time()
    core.build(need_cli=True)
    res = core.run_shards(shard, seed, tier, "C19")
    floor = {"cases": (res.cases, 300), "emitted_==": (res.counts["emitted_EQ"], 30), "emitted_IN": (res.counts["emitted_IN"], 30),
             "mutations": (res.counts["mutations"], 50), "value_classes": (len(res.extra.get("value_classes", set())), 8)}
    return core.finish("C19", tier, seed, res, t0,
                       rule="templates with 1-5 resources over 1-3 types (70% with uniform property names per type), property values from plain strings, 17 odd "
                            "string classes (spaces, quotes, #, /, unicode, digits-only, backslash, ...), ints, bools, nested lists/maps, repeated and distinct values; "
                            "rulegen run twice as a real process, output parsed, self-validated and mutation-validated; distinct = (outcome, value classes)",
                       floor=floor,
                       assumptions=["a rulegen crash is routed to C08 (inconclusive here)"])
