"""C05 - evaluation is deterministic: same inputs, same bytes, same exit code.

Each (command line, inputs) is executed N times as a fresh process of the shipped binary (fresh hash
seeds) under a rotated environment (TZ, LANG, HOME, COLUMNS, NO_COLOR, RUST_BACKTRACE, cwd, pipe vs
file), and 5 times back-to-back inside one worker process. Structured outputs must be byte-identical
(elapsed-time fields masked), console outputs identical as multisets of lines, exit codes equal.
"""
import json
import os
import re
import shutil
import subprocess
import time

from .. import core, gen, obs

NEED_CLI = True

ENVS = [
    {},
    {"TZ": "Asia/Tokyo", "LANG": "C", "COLUMNS": "40"},
    {"TZ": "America/Los_Angeles", "LC_ALL": "de_DE.UTF-8", "LANG": "de_DE.UTF-8", "RUST_BACKTRACE": "1"},
    {"HOME": None, "NO_COLOR": "1", "COLUMNS": "300"},
    {"TZ": "UTC", "TERM": "dumb", "RUST_BACKTRACE": "full", "RUST_LOG": "debug"},
    {"LANG": "tr_TR.UTF-8", "HOME": "/nonexistent", "TMPDIR": "/nonexistent"},
    {"CLICOLOR": "0", "COLUMNS": "1"},
    {"TZ": "Pacific/Kiritimati", "SOURCE_DATE_EPOCH": "1"},
    {"TZ": "JST-9", "LANG": "ja_JP.UTF-8"},
    {"TZ": "PST8PDT,M3.2.0,M11.1.0", "LC_TIME": "en_US"},
    {"TZ": "UTC0"},
    {"CLICOLOR_FORCE": "1", "TERM": "xterm-256color"},      # colour forced on: console output gets ANSI codes (stripped before comparing), structured output must not
]

# timestamps for the function rules: with zone, without zone (environment-sensitive if ever accepted), inside a DST gap, non-RFC3339 forms
WHENS = ["2024-08-21T00:00:00Z", "2024-08-21T00:00:00", "2024-03-10T02:30:00", "2024-08-21 00:00:00", "2024-08-21", "2024-08-21T00:00:00+09:00",
         "2024-08-21T00:00:00.5-07:00", "Wed, 21 Aug 2024 00:00:00 GMT", "1724198400", "2024-11-03T01:30:00", "20240821T000000", "2024-08-21T00:00:00 PST"]

STRUCTURED = {"t-multi-json", "t-multi-junit", "v-overlap-s-json", "v-overlap-s-junit", "t-err-expectations-json", "pt-json-ofile", "pt-yaml-ofile", "rulegen-ofile", "fn-epoch-s-json", "fn-misc-s-yaml", "v-s-json", "v-s-yaml", "v-s-sarif", "v-s-junit", "v-printjson", "pt-json", "pt-yaml", "t-json", "t-yaml", "t-junit"}
TIME_RE = re.compile(rb'(time="[^"]*"|"time":\s*\d+|\btime:\s*\d+)')
ANSI = re.compile(rb"\x1b\[[0-9;]*m")


def mask(mode, out):
    out = TIME_RE.sub(b"TIME", out)
    if mode == "v-printjson":
        out = ANSI.sub(b"", out)       # --print-json prints the record next to the console report, whose colours follow the terminal settings
    return out


def norm_console(out):
    lines = ANSI.sub(b"", out).split(b"\n")
    return tuple(sorted(lines))


def make_env(spec):
    env = dict(os.environ)
    for k, v in spec.items():
        if v is None:
            env.pop(k, None)
        else:
            env[k] = v
    return env


def run(argv, stdin, envspec, cwd, to_file):
    env = make_env(envspec)
    if to_file:
        path = os.path.join(cwd, "stdout.capture")
        with open(path, "wb") as f:
            p = subprocess.run([core.CLI_BIN] + argv, input=stdin, env=env, cwd=cwd, stdout=f, stderr=subprocess.PIPE, timeout=60)
        out = open(path, "rb").read()
        os.unlink(path)
        return p.returncode, out, p.stderr
    p = subprocess.run([core.CLI_BIN] + argv, input=stdin, env=env, cwd=cwd, stdout=subprocess.PIPE, stderr=subprocess.PIPE, timeout=60)
    return p.returncode, p.stdout, p.stderr


def modes_for(sdir):
    R = ["-r", os.path.join(sdir, "r1.guard"), "-r", os.path.join(sdir, "r2.guard")]
    D = ["-d", os.path.join(sdir, "d")]
    T = os.path.join(sdir, "t")
    return {
        "v-s-json": ["validate"] + R + D + ["--structured", "-S", "none", "-o", "json"],
        "v-s-yaml": ["validate"] + R + D + ["--structured", "-S", "none", "-o", "yaml"],
        "v-s-sarif": ["validate"] + R + D + ["--structured", "-S", "none", "-o", "sarif"],
        "v-s-junit": ["validate"] + R + D + ["--structured", "-S", "none", "-o", "junit"],
        "v-o-json": ["validate"] + R + D + ["-o", "json", "-S", "all"],
        "v-o-yaml": ["validate"] + R + D + ["-o", "yaml"],
        "v-printjson": ["validate"] + R[:2] + D + ["-p", "-S", "none"],
        "v-console": ["validate"] + R + D,
        "v-generic-console": ["validate"] + R + ["-d", os.path.join(sdir, "plain", "settings.json"), "-S", "all"],
        "v-generic-console-rdir": ["validate", "-r", os.path.join(sdir, "rdir"), "-d", os.path.join(sdir, "plain", "settings.json"), "-S", "pass,fail,skip"],
        "v-console-all-verbose": ["validate"] + R + D + ["-S", "all", "-v"],
        "v-cfn": ["validate"] + R + D + ["-t", "CFNTemplate", "-S", "pass,fail,skip"],
        "pt-json": ["parse-tree", "-r", os.path.join(sdir, "r1.guard"), "-p"],
        "pt-yaml": ["parse-tree", "-r", os.path.join(sdir, "r1.guard"), "-y"],
        "t-json": ["test", "-d", T, "-o", "json"],
        "t-yaml": ["test", "-r", os.path.join(T, "r1.guard"), "-t", os.path.join(T, "tests", "r1_tests.json"), "-o", "yaml"],
        "t-junit": ["test", "-d", T, "-o", "junit"],
        "t-console": ["test", "-d", T],
        # several tests files for one rules file under --dir: the cases are listed in the same order every time
        "t-multi-json": ["test", "-d", os.path.join(sdir, "tm"), "-o", "json"],
        "t-multi-junit": ["test", "-d", os.path.join(sdir, "tm"), "-o", "junit"],
        "t-multi-console": ["test", "-d", os.path.join(sdir, "tm")],
        "t-console-verbose": ["test", "-r", os.path.join(T, "r1.guard"), "-t", os.path.join(T, "tests", "r1_tests.json"), "-v"],
        # runs that end in an evaluation error: the message (stderr) names the rules of the file
        "v-err-unknown-rule": ["validate", "-r", os.path.join(sdir, "e1.guard")] + D,
        "v-err-unknown-call": ["validate", "-r", os.path.join(sdir, "e2.guard")] + D + ["--structured", "-S", "none", "-o", "json"],
        "t-err-expectations-json": ["test", "-r", os.path.join(sdir, "tbad", "r1.guard"), "-t", os.path.join(sdir, "tbad", "bad_tests.json"), "-o", "json"],
        "t-err-expectations-console": ["test", "-r", os.path.join(sdir, "tbad", "r1.guard"), "-t", os.path.join(sdir, "tbad", "bad_tests.json")],
        # the same rules file reachable twice (named directly and found again through its directory), next to other rules files
        "v-overlap-s-json": ["validate", "-r", os.path.join(sdir, "rdir"), "-r", os.path.join(sdir, "rdir", "b_r2.guard")] + D + ["--structured", "-S", "none", "-o", "json"],
        "v-overlap-s-junit": ["validate", "-r", os.path.join(sdir, "rdir", "a_r1.guard"), "-r", os.path.join(sdir, "rdir")] + D + ["--structured", "-S", "none", "-o", "junit"],
        "v-overlap-console": ["validate", "-r", os.path.join(sdir, "rdir"), "-r", os.path.join(sdir, "rdir", "a_r1.guard"), "-r", os.path.join(sdir, "rdir")] + D + ["-S", "all"],
        "rulegen": ["rulegen", "-t", os.path.join(sdir, "rg.json")],
        "v-tf-console": ["validate", "-r", os.path.join(sdir, "tf.guard"), "-d", os.path.join(sdir, "tf")],
        "v-tf-console-all": ["validate", "-r", os.path.join(sdir, "tf.guard"), "-d", os.path.join(sdir, "tf"), "-S", "all", "-v"],
        "pt-json-ofile": ["parse-tree", "-r", os.path.join(sdir, "r1.guard"), "-p", "-o", "{OUT}"],
        "pt-yaml-ofile": ["parse-tree", "-r", os.path.join(sdir, "r2.guard"), "-y", "-o", "{OUT}"],
        "rulegen-ofile": ["rulegen", "-t", os.path.join(sdir, "rg.json"), "-o", "{OUT}"],
        "fn-epoch-s-json": ["validate", "-r", os.path.join(sdir, "fn1.guard")] + D + ["--structured", "-S", "none", "-o", "json"],
        "fn-epoch-console": ["validate", "-r", os.path.join(sdir, "fn1.guard")] + D + ["-S", "all"],
        "fn-misc-s-yaml": ["validate", "-r", os.path.join(sdir, "fn2.guard")] + D + ["--structured", "-S", "none", "-o", "yaml"],
        "fn-misc-console": ["validate", "-r", os.path.join(sdir, "fn2.guard")] + D + ["-S", "all", "-v"],
    }


def build_inputs(rng, sdir):
    o = gen.Opts(types=True, calls=True, msgs=True, max_rules=4, max_lines=4, keys_filters=True, some_lets=True)
    docs = [gen.gen_cfn_doc(rng, nres=rng.randint(2, 5)) for _ in range(3)]
    for d in docs:
        d.setdefault("Resources", {"x": {"Type": "AWS::S3::Bucket", "Properties": {"a": 1}}})
        d["a"] = rng.choice([1, "x", [1, 2]])
        d["when"] = rng.choice(WHENS) if rng.random() < 0.35 else rng.choice([w for w in WHENS if w[-1] == "Z" or w[-6] in "+-"])
        d["name"] = rng.choice(["istanbul", "İSTANBUL", "straße", "ǅ", "abc"])
        d["num"] = rng.choice(["12", "1.5", 7, 2.5, "0x10"])
    # competing spellings of one key: the first document has one, the second both, the third the other one; the rules use a third spelling
    docs[0]["bucket_name"] = "x"
    docs[1]["BucketName"] = "y"
    docs[1]["bucket_name"] = "x"
    docs[2]["BucketName"] = "x"
    shutil.rmtree(sdir, ignore_errors=True)
    os.makedirs(os.path.join(sdir, "d"))
    os.makedirs(os.path.join(sdir, "t", "tests"))
    for i, d in enumerate(docs):
        open(os.path.join(sdir, "d", "d%d.json" % i), "w").write(json.dumps(d, indent=1))
    # the same content as a plain settings document (no `Resources` map): the console then uses the generic (one line per failure) rendering
    os.makedirs(os.path.join(sdir, "plain"))
    pl = dict(docs[0])
    pl["Items"] = pl.pop("Resources", {})
    open(os.path.join(sdir, "plain", "settings.json"), "w").write(json.dumps(pl, indent=1))
    # the rulegen template: the first document plus resources whose property values (and property names) differ only in letter case, in
    # type (5 / "5" / 5.0) or not at all - whatever rulegen sorts or groups by must order them the same way in every run
    rg = json.loads(json.dumps(docs[0]))
    variants = ["Private", "private", "PRIVATE", "pRivate", "privatE", "PrivatE"]
    rng.shuffle(variants)
    for j, v in enumerate(variants):
        rg["Resources"]["cv%d" % j] = {"Type": "AWS::S3::Bucket", "Properties": {"AccessControl": v, "Retention": rng.choice([5, "5", 5.0, "05"]),
                                                                                   rng.choice(["Name", "name", "NAME", "nAme"]): "n%d" % (j % 2)}}
    open(os.path.join(sdir, "rg.json"), "w").write(json.dumps(rg, indent=1))
    texts = []
    for i in (1, 2):
        while True:
            f = gen.gen_file(rng, docs[0], o)
            if len([r for r in f["rules"] if not r.get("params")]) >= 3:
                break
        for r in f["rules"]:
            r["name"] = "f%d_%s" % (i, r["name"])
            for kind, cnf in gen.iter_cnfs({"lets": [], "default": [], "rules": [r]}):
                for line in cnf:
                    for alt in line:
                        if alt["t"] in ("ref", "call"):
                            alt["name"] = "f%d_%s" % (i, alt["name"])
        if f.get("default"):
            f["default"] = []
        t = gen.pfile(f)
        if i == 1:
            t += 'rule f1_spelling {\n    bucketName == "x" <<spelling>>\n}\nrule f1_spelling2 {\n    Bucket_Name == "y" or bucketName == "y"\n}\n'
        if i == 2:
            # key filters over several resources, failing for each: every selected entry shows up in the report, in document order
            t += ('rule f2_keys_in {\n    Resources[ keys in ["r0", "r1", "r2", "r3", "r4", "x"] ].Type == "nope" <<keys in>>\n    Resources[ keys not in ["zz"] ].Type == "nope"\n}\n'
                  'rule f2_keys_query {\n    let names = ["r0", "r1", "r2", "x"]\n    Resources[ keys == %names ].Type == "nope"\n    Resources[ keys == /^r/ ].Properties !exists\n}\n')
        texts.append(t)
        open(os.path.join(sdir, "r%d.guard" % i), "w").write(t)
    # Terraform-plan-shaped documents (the console reporter has a separate view for them): >= 3 non-compliant resources each
    os.makedirs(os.path.join(sdir, "tf"))
    for i in range(2):
        d = gen.gen_tf_doc(rng, nres=rng.randint(3, 6), wellformed=True)
        for rc_ in d["resource_changes"]:
            rc_["change"]["after"]["acl"] = rng.choice(["public", "open"])
            rc_["change"]["after"]["n"] = rng.randint(3, 9)
        open(os.path.join(sdir, "tf", "plan%d.json" % i), "w").write(json.dumps(d, indent=1))
    open(os.path.join(sdir, "tf.guard"), "w").write(
        "rule tf_acl {\n    resource_changes[*].change.after.acl in [\"private\"] <<acl>>\n}\n"
        "rule tf_n {\n    resource_changes[*].change.after.n < 2\n    resource_changes[*].change.after.acl == \"private\" or resource_changes[*].change.after.n == 0\n}\n"
        "rule tf_unary {\n    resource_changes[*].change.after.nosuch exists\n    resource_changes[*].change.after.acl !exists\n}\n")
    # function rules: every failure message carries the computed value, so any environment dependence reaches the bytes
    open(os.path.join(sdir, "fn1.guard"), "w").write(
        "rule fn_epoch {\n    let e = parse_epoch(when)\n    %e < 1000 <<epoch>>\n    %e > 1724198400\n}\n")
    open(os.path.join(sdir, "fn2.guard"), "w").write(
        "rule fn_case {\n    let u = to_upper(name)\n    let l = to_lower(name)\n    %u == \"?\"\n    %l == \"?\"\n}\n"
        "rule fn_count {\n    let c = count(Resources.*)\n    %c < 0\n}\n"
        "rule fn_conv {\n    let s = parse_string(num)\n    %s == \"?\"\n    let f = parse_float(num)\n    %f < 0.0\n}\n"
        "rule fn_join {\n    let k = Resources[ keys == /./ ].Type\n    let j = join(%k, \"|\")\n    %j == \"?\"\n    let r = regex_replace(name, \"(?i)s\", \"$0$0\")\n    %r == \"?\"\n    let e = url_decode(name)\n    %e == \"?\"\n}\n")
    defs = "".join("rule known_%s {\n    a exists\n}\nrule pknown_%s(p) {\n    %%p exists\n}\n" % (n_, n_) for n_ in rng.sample("abcdefghijk", 7))
    open(os.path.join(sdir, "e1.guard"), "w").write(defs + "rule uses_unknown {\n    no_such_rule\n}\n")
    open(os.path.join(sdir, "e2.guard"), "w").write(defs + "rule calls_unknown {\n    no_such_prule(a)\n}\n")
    os.makedirs(os.path.join(sdir, "rdir"), exist_ok=True)
    shutil.copy(os.path.join(sdir, "r1.guard"), os.path.join(sdir, "rdir", "a_r1.guard"))
    shutil.copy(os.path.join(sdir, "r2.guard"), os.path.join(sdir, "rdir", "b_r2.guard"))
    open(os.path.join(sdir, "rdir", "c_extra.guard"), "w").write("rule c_extra {\n    a exists\n    Resources exists\n}\nrule c_fails {\n    zz_nokey_c exists\n}\n")
    open(os.path.join(sdir, "rdir", "d_extra.guard"), "w").write("rule d_extra {\n    zz_nokey_d exists <<d>>\n}\n")
    shutil.copy(os.path.join(sdir, "r1.guard"), os.path.join(sdir, "t", "r1.guard"))
    names = [r["name"] for r in f["rules"]]
    import re as _re
    names1 = _re.findall(r"^rule (\w+)", texts[0], _re.M)
    specs = []
    for i, d in enumerate(docs):
        specs.append({"name": "case%d" % i, "input": d,
                      "expectations": {"rules": {n: rng.choice(["PASS", "FAIL", "SKIP"]) for n in names1 if not n.endswith("pr0")}}})
    open(os.path.join(sdir, "t", "tests", "r1_tests.json"), "w").write(json.dumps(specs))
    os.makedirs(os.path.join(sdir, "tm", "tests"), exist_ok=True)
    shutil.copy(os.path.join(sdir, "r1.guard"), os.path.join(sdir, "tm", "r1.guard"))
    for j, tag in enumerate(["a", "b", "c", "d", "e"]):
        one = [dict(sp, name="%s_%s" % (tag, sp["name"])) for sp in specs[:2]]
        open(os.path.join(sdir, "tm", "tests", "r1_%s_tests.json" % tag), "w").write(json.dumps(one))
    # a tests file whose expectations are all misspelt, each differently: whichever the command reports, it must be the same one every time
    os.makedirs(os.path.join(sdir, "tbad"), exist_ok=True)
    shutil.copy(os.path.join(sdir, "r1.guard"), os.path.join(sdir, "tbad", "r1.guard"))
    wrong = ["PASSED", "FAILED", "pass", "Skip", "OK", "failing", "NONE"]
    bad_specs = [{"name": "bad%d" % i, "input": docs[0], "expectations": {"rules": {n: wrong[(k + i) % len(wrong)] for k, n in enumerate(names1)}}} for i in range(2)]
    open(os.path.join(sdir, "tbad", "bad_tests.json"), "w").write(json.dumps(bad_specs))
    return texts, docs


def shard(ctx):
    rng = ctx.rng("c05")
    sdir = os.path.join(core.SCRATCH, "c05-%d-%d" % (os.getpid(), ctx.shard))
    ninputs = 4 if ctx.quick else 38
    N = 5 if ctx.quick else 8
    try:
        for t in range(ninputs):
            texts, docs = build_inputs(rng, sdir)
            modes = modes_for(sdir)
            alt_cwd = os.path.join(sdir, "cwd2")
            os.makedirs(alt_cwd, exist_ok=True)
            for mode, argv in modes.items():
                runs = []
                for k in range(N):
                    envspec = ENVS[(k + t + 3 * ctx.shard) % len(ENVS)]
                    cwd = sdir if k % 2 == 0 else alt_cwd
                    # the files are "saved again" in another order before every run: same names, same bytes, other modification times
                    # (no mode here asks for --last-modified ordering)
                    for sub in ("d", "plain", "tf", "t", os.path.join("t", "tests"), "tm", os.path.join("tm", "tests")):
                        names_ = sorted(x for x in os.listdir(os.path.join(sdir, sub)) if os.path.isfile(os.path.join(sdir, sub, x)))
                        order_ = names_ if k % 3 == 0 else (names_[::-1] if k % 3 == 1 else names_[1:] + names_[:1])
                        for pos_, x in enumerate(order_):
                            os.utime(os.path.join(sdir, sub, x), (1700000000 + 1000 * pos_, 1700000000 + 1000 * pos_))
                    try:
                        if "{OUT}" in argv:
                            # --output <file>: the bytes left in the file are the output; what the file held before must not matter
                            opath = os.path.join(sdir, "ofile-" + mode)
                            before = [None, "", "x" * 60000, "# old\n" * 3, "{\n" * 9000][k % 5]
                            if before is None:
                                if os.path.exists(opath):
                                    os.unlink(opath)
                            else:
                                open(opath, "w").write(before)
                            code, _o, err = run([opath if a == "{OUT}" else a for a in argv], None, envspec, cwd, to_file=False)
                            out = open(opath, "rb").read() if os.path.exists(opath) else b"<no file>"
                        else:
                            code, out, err = run(argv, None, envspec, cwd, to_file=(k % 3 == 2))
                    except subprocess.TimeoutExpired:
                        ctx.inconclusive("timeout")
                        continue
                    runs.append((code, out, err, k))
                if len(runs) < 2:
                    continue
                ctx.res.cases += 1
                case = {"kind": "proc", "mode": mode, "argv": [a.replace(sdir, "{S}") for a in argv], "rules": texts, "docs": docs,
                        "files": snapshot(sdir)}
                codes = {r[0] for r in runs}
                if any(c is None or c < 0 or c in (101, 134) for c in codes):
                    ctx.inconclusive("crash-exit")
                    continue
                if len(codes) > 1:
                    ctx.violation("%s:exit-code" % mode, "exit codes differ across runs: %s" % sorted(codes), case)
                    continue
                if mode in STRUCTURED:
                    outs = {mask(mode, r[1]) for r in runs}
                    what = "stdout-bytes"
                else:
                    outs = {norm_console(r[1]) for r in runs}
                    what = "stdout-lines"
                nonempty = any(len(r[1]) > 0 or ((mode.startswith("v-err") or mode.startswith("t-err")) and len(r[2]) > 0) for r in runs)
                ctx.res.extra.setdefault("modes_with_output", set()).add(mode if nonempty else mode + ":EMPTY")
                ctx.res.distinct.add((mode, len(runs[0][1]) // 200, list(codes)[0]))
                if len(outs) > 1:
                    a, b = list(outs)[:2]
                    if mode in STRUCTURED:
                        diff = first_diff(a, b)
                    else:
                        diff = "lines only in one run: %s" % [l.decode("utf-8", "replace")[:120] for l in (set(a) ^ set(b))][:4]
                    ctx.violation("%s:%s" % (mode, what), "%d distinct outputs in %d runs of `%s`: %s" % (len(outs), len(runs), " ".join(case["argv"]), diff), case)
                    continue
                errs = {norm_console(r[2]) for r in runs}
                if len(errs) > 1:
                    ctx.violation("%s:stderr-lines" % mode, "stderr differs across runs", case)
                elif len(ctx.res.samples) < 3:
                    ctx.sample({"mode": mode, "argv": case["argv"], "runs": len(runs), "exit": list(codes)[0], "stdout_bytes": len(runs[0][1])})
            # ---- what a run says about one data file does not depend on the data files evaluated before it in the same process
            from . import c12
            R = ["-r", os.path.join(sdir, "r1.guard"), "-r", os.path.join(sdir, "r2.guard")]
            for fmt in ("json", "yaml", "junit", "sarif"):
                tailf = ["--structured", "-S", "none", "-o", fmt]
                try:
                    code, out, err = run(["validate"] + R + ["-d", os.path.join(sdir, "d")] + tailf, None, {}, sdir, False)
                    batch = units_of(fmt, out)
                    alone = {}
                    for j in range(len(docs)):
                        c1, o1, e1 = run(["validate"] + R + ["-d", os.path.join(sdir, "d", "d%d.json" % j)] + tailf, None, {}, sdir, False)
                        alone.update(units_of(fmt, o1) or {})
                except subprocess.TimeoutExpired:
                    ctx.inconclusive("timeout")
                    continue
                ctx.res.cases += 1
                if batch is None and not out.strip():
                    ctx.res.counts["earlier-files:error-run-without-output"] += 1      # an evaluation error ends the run without a report
                    continue
                if batch is None:
                    ctx.inconclusive("units-unparsable:" + fmt)
                    continue
                if not batch:
                    ctx.res.counts["earlier-files:no-units"] += 1
                    continue
                ctx.res.counts["earlier_file_units_compared"] += len(batch)
                bad = sorted(k for k in batch if k in alone and batch[k] != alone[k])
                if bad:
                    ctx.violation("earlier-files:%s" % fmt, "what `validate --structured -o %s` reports for %s depends on the data files evaluated before it: in the batch %s, alone %s" % (
                        fmt, bad[0], str(batch[bad[0]])[:300], str(alone[bad[0]])[:300]),
                        {"kind": "proc", "mode": "v-s-" + fmt, "argv": ["validate", "-r", "{S}/r1.guard", "-r", "{S}/r2.guard", "-d", "{S}/d"] + tailf, "rules": texts, "docs": docs, "files": snapshot(sdir),
                         "earlier_files": True})
                else:
                    ctx.res.distinct.add(("earlier-files", fmt, len(batch)))
            # ---- within one process: same job 5x back-to-back, interleaved with an unrelated one
            payload = json.dumps({"rules": texts, "data": [json.dumps(d) for d in docs]})
            for argv in (["validate", "--payload", "--structured", "-S", "none", "-o", "json"], ["validate", "--payload", "-o", "yaml", "-S", "all"],
                         ["validate", "--payload", "--structured", "-S", "none", "-o", "sarif"]):
                r = ctx.w.run({"k": "cli", "argv": argv, "stdin": payload, "repeat": 3})
                ctx.w.run({"k": "rc", "data": json.dumps(docs[-1]), "rules": texts[-1], "verbose": True})
                r2 = ctx.w.run({"k": "cli", "argv": argv, "stdin": payload, "repeat": 2})
                if r.get("r") not in ("ok", "err") or r2.get("r") not in ("ok", "err"):
                    ctx.inconclusive("crash-in-process")
                    continue
                allr = [r] + r.get("more", []) + [r2] + r2.get("more", [])
                ctx.res.cases += 1
                ctx.res.counts["in_process_repetitions"] += len(allr)
                keyf = (lambda x: (x["code"], x["out"])) if "--structured" in argv else (lambda x: (x["code"], tuple(sorted(x["out"].split("\n")))))
                if len({keyf(x) for x in allr}) > 1:
                    ctx.violation("in-process:%s" % argv[-1], "repeating the same evaluation inside one process gives different results",
                                  {"kind": "inproc", "argv": argv, "stdin": payload})
    finally:
        shutil.rmtree(sdir, ignore_errors=True)


def units_of(fmt, out):
    """{data file: everything a structured output says about it}"""
    from . import c12
    text = re.sub(rb'time="[^"]*"', b'time="T"', out).decode("utf-8", "replace")
    if fmt in ("junit", "sarif"):
        return c12.per_data_units(fmt, text)
    try:
        import yaml
        reps = json.loads(text) if fmt == "json" else yaml.safe_load(text)
        return {r["name"]: json.dumps(r, sort_keys=True, default=str) for r in reps}
    except Exception:
        return None


def first_diff(a, b):
    n = min(len(a), len(b))
    i = next((k for k in range(n) if a[k] != b[k]), n)
    return "first difference at byte %d: %r vs %r" % (i, a[max(0, i - 40):i + 60].decode("utf-8", "replace"), b[max(0, i - 40):i + 60].decode("utf-8", "replace"))


def snapshot(sdir):
    files = {}
    for root, _, names in os.walk(sdir):
        for n in names:
            p = os.path.join(root, n)
            files[os.path.relpath(p, sdir)] = open(p).read()
    return files


def replay(case, w):
    if case["kind"] == "inproc":
        r = w.run({"k": "cli", "argv": case["argv"], "stdin": case["stdin"], "repeat": 6})
        allr = [r] + r.get("more", [])
        return len({(x["code"], x["out"]) for x in allr}) == 1, "%d repetitions" % len(allr)
    sdir = os.path.join(core.SCRATCH, "c05-replay-%d" % os.getpid())
    try:
        shutil.rmtree(sdir, ignore_errors=True)
        for rel, content in case["files"].items():
            p = os.path.join(sdir, rel)
            os.makedirs(os.path.dirname(p), exist_ok=True)
            open(p, "w").write(content)
        os.makedirs(os.path.join(sdir, "cwd2"), exist_ok=True)
        argv = [a.replace("{S}", sdir) for a in case["argv"]]
        if case.get("earlier_files"):
            fmt = argv[-1]
            code, out, err = run(argv, None, {}, sdir, False)
            batch = units_of(fmt, out) or {}
            alone = {}
            for name in sorted(os.listdir(os.path.join(sdir, "d"))):
                a1 = [x if x != os.path.join(sdir, "d") else os.path.join(sdir, "d", name) for x in argv]
                alone.update(units_of(fmt, run(a1, None, {}, sdir, False)[1]) or {})
            bad = [k for k in batch if k in alone and batch[k] != alone[k]]
            return not bad, "%d data files whose unit differs between batch and stand-alone run" % len(bad)
        outs = set()
        for k in range(12):
            if "{OUT}" in argv:
                opath = os.path.join(sdir, "ofile")
                before = [None, "", "x" * 60000, "# old\n" * 3, "{\n" * 9000][k % 5]
                if before is None:
                    if os.path.exists(opath):
                        os.unlink(opath)
                else:
                    open(opath, "w").write(before)
                code, _o, err = run([opath if a == "{OUT}" else a for a in argv], None, ENVS[k % len(ENVS)], sdir, False)
                outs.add((code, open(opath, "rb").read() if os.path.exists(opath) else b"<no file>"))
                continue
            code, out, err = run(argv, None, ENVS[k % len(ENVS)], sdir, False)
            outs.add((code, mask(case["mode"], out) if case["mode"] in STRUCTURED else norm_console(out)))
        return len(outs) == 1, "%d distinct outputs in 12 runs" % len(outs)
    finally:
        shutil.rmtree(sdir, ignore_errors=True)


def main(tier, seed):
    t0 = time.time()
    core.build(need_cli=True)
    res = core.run_shards(shard, seed, tier, "C05")
    mo = res.extra.get("modes_with_output", set())
    floor = {"cases": (res.cases, 500), "modes_with_nonempty_output": (len([m for m in mo if not m.endswith(":EMPTY")]), 39),
             "in_process_repetitions": (res.counts["in_process_repetitions"], 200),
             "earlier_file_units_compared": (res.counts["earlier_file_units_compared"], 150)}
    return core.finish("C05", tier, seed, res, t0,
                       rule="generated inputs (2 rules files with >=3 rules each, 3 CloudFormation-shaped documents, a test spec) x 27 command/output modes (3 writing to an --output file that held other content before, 2 on Terraform-plan-shaped data, 4 of them function rules: parse_epoch on 12 timestamp spellings incl. zone-less and DST-gap ones, case mapping, conversions, join/regex_replace), each "
                            "run N=5 (quick) / 8 (thorough) times as a fresh process under rotated environments and cwd, plus 5 in-process repetitions of 3 "
                            "payload modes, plus per-data-file units of structured json/yaml/junit/sarif batches vs the same file validated alone (nothing evaluated earlier); distinct = (mode, output size bucket, exit code)",
                       floor=floor,
                       assumptions=["elapsed-time fields (JUnit time=, `time` of test reports) are masked", "ANSI colour codes are stripped from console output before comparing lines",
                                    "rules calling now() are not generated"])
