"""C10 - reported paths, values and source positions point into the input document.

Documents are written by the position-tracking emitter (JSON compact / pretty, YAML flow / block with
random layout); function-free rules that fail everywhere (one clause per node, unresolved probes below
maps / lists / scalars, `in` and query-RHS clauses) are validated with `--structured -o json`. Every
reported {path, value} must resolve in the model document to exactly that value, unresolved reports must
lie on the queried path with the next segment missing, and every [L:l,C:c] attached to a scalar path must
be where the emitter put that scalar. The hooked loader probe checks the position of every node.
"""
import json
import math
import re
import time

from .. import core, gen, obs, ser
from .c11 import strict_eq

NEVER = "__never__"
EXTRA = [0.75, -0.25, 0.5, "é x", "日本語", "007", "it's", 'q"d', 2 ** 63 - 1, -5, 1e308, -1.5, " lead", "a #b", "", "x" * 30, "go \U0001F680"]
# strings that the YAML block emitter writes as literal / folded block scalars (multi-line, trailing newline, number- and keyword-looking single lines)
BLOCKY = ["line one\nline two\n", "20240117", "false", "a\nb", "x\n", "multi\n\nline", "null", "1.5", "~", "k: v\n- x", "# not a comment\n"]
SCALARS = gen.SCALARS + EXTRA + BLOCKY
PATH_RE = re.compile(r"Path=([^\[\]\s]*)\[L:(\d+),C:(\d+)\]")


def resolve(doc, path):
    """JSON-pointer-like walk; returns (found, value)"""
    if path == "":
        return True, doc
    cur = doc
    for seg in path.split("/")[1:]:
        if isinstance(cur, dict):
            if seg not in cur:
                return False, None
            cur = cur[seg]
        elif isinstance(cur, list):
            if not seg.isdigit() or int(seg) >= len(cur):
                return False, None
            cur = cur[int(seg)]
        else:
            return False, None
    return True, cur


def query_for(path):
    parts = []
    for x in path:
        parts.append(["key", x] if isinstance(x, str) else ["idx", x])
    if not parts:
        return "this"
    if parts[0][0] == "idx":
        parts = [["this"]] + parts
    return gen.pquery(parts)


def build_rules(rng, doc):
    """returns (rules text, {rule name: info}) ; info = dict(kind, path (json pointer), ...)"""
    rules, info = [], {}
    nodes = list(gen.walk(doc))
    scal = [(p, v) for p, v in nodes if not isinstance(v, (dict, list))]
    n = 0

    def add(kind, body, **kw):
        nonlocal n
        name = "%s%d" % (kind, n)
        n += 1
        rules.append("rule %s {\n    %s\n}\n" % (name, body))
        info[name] = dict(kind=kind, **kw)
    for p, v in nodes:
        if not p:
            continue
        q = query_for(p)
        jp = ser.jpath(p)
        if not isinstance(v, (dict, list)):
            add("s", '%s == "%s"' % (q, NEVER), path=jp)
            if rng.random() < 0.4:
                add("i", '%s in ["%s", "%s2"]' % (q, NEVER, NEVER), path=jp)
            if rng.random() < 0.4:
                add("u", "%s.zz_missing exists" % q, path=jp, missing="zz_missing")
        elif isinstance(v, dict):
            add("u", "%s.zz_missing == 1" % q, path=jp, missing="zz_missing")
            if rng.random() < 0.35:
                # the missing key comes from a variable (documented key interpolation `a.%k`): the point reached is still this map
                add("u", 'let mk = "zz_missing"\n    %s.%%mk == 1' % q, path=jp, missing="zz_missing")
            for kx, vx in v.items():
                if not isinstance(vx, (dict, list)) and kx and "/" not in kx and rng.random() < 0.15:
                    add("s", 'let pk = %s\n    %s.%%pk == "%s"' % (gen.gstr(kx), q, NEVER), path=ser.jpath(p + (kx,)))
            if rng.random() < 0.3:
                add("u", "%s.zz_missing.deeper exists" % q, path=jp, missing="zz_missing")
        else:
            add("u", "%s[%d] == 1" % (q, len(v) + 3), path=jp, missing=str(len(v) + 3))
            inner = [x for x in v if isinstance(x, list) and x]
            if inner and all(isinstance(x, list) for x in v) and all(not isinstance(y, (dict, list)) for x in inner for y in x):
                # a list of lists: filter the outer list, then iterate each selected inner list with [*]
                add("lf", '%s[ this !empty ][*] == "%s"' % (q, NEVER), path=jp)
                add("uf", "%s[ this !empty ][*].zz_missing exists" % q, path=jp)
            if v and rng.random() < 0.5 and all(not isinstance(x, (dict, list)) for x in v):
                add("l", '%s[*] == "%s"' % (q, NEVER), path=jp)
    # query on the right-hand side (the `to` value comes from the data)
    for _ in range(min(6, len(scal))):
        (p1, v1), (p2, v2) = rng.choice(scal), rng.choice(scal)
        if p1 and p2 and (type(v1) is not type(v2) or v1 != v2):
            add("q", "%s == %s" % (query_for(p1), query_for(p2)), path=ser.jpath(p1), to=ser.jpath(p2))
    return "".join(rules), info


def walk_report(e, out, rule):
    """collect (rule, slot, dict-with-path-value | unresolved dict, message) from a not_compliant entry"""
    (k, v), = e.items()
    if k in ("Rule", "Disjunctions"):
        nm = v.get("name", rule) if k == "Rule" else rule
        for c in v.get("checks", []):
            walk_report(c, out, nm)
        return
    if k == "Block":
        out.append((rule, "unresolved", v.get("unresolved"), (v.get("messages") or {}).get("error_message")))
        return
    (ck, cv), = v.items()
    msg = (cv.get("messages") or {}).get("error_message")
    chk = cv.get("check") or {}
    if not isinstance(chk, dict):
        return
    for form, inner in chk.items():
        if not isinstance(inner, dict):
            continue
        if form in ("Resolved", "InResolved"):
            if "from" in inner:
                out.append((rule, "from", inner["from"], msg))
            if "value" in inner and isinstance(inner["value"], dict) and "path" in inner["value"]:
                out.append((rule, "from", inner["value"], msg))
            to = inner.get("to")
            if isinstance(to, dict):
                out.append((rule, "to", to, msg))
            elif isinstance(to, list):
                for t in to:
                    out.append((rule, "to", t, msg))
        elif form == "UnResolved":
            out.append((rule, "unresolved", inner.get("value"), msg))


def check_doc(ctx, rng, doc, sname):
    text, pos, kinds = ser.STYLES[sname](doc, rng)
    # transport variants of the same text: CRLF line ends, leading blank lines, tab-indented JSON (positions shift accordingly)
    tr = rng.choice(["", "", "", "+crlf", "+lead-blank", "+tabs"])
    if tr == "+crlf":
        text = text.replace("\n", "\r\n")
    elif tr == "+lead-blank":
        k = rng.randint(1, 3)
        text = "\n" * k + text
        pos = {p_: (l + k, c) for p_, (l, c) in pos.items()}
    elif tr == "+tabs" and sname == "json-pretty":
        text = "\n".join("\t" * (len(ln) - len(ln.lstrip(" "))) + ln.lstrip(" ") for ln in text.split("\n"))
    else:
        tr = ""
    sname_t = sname + tr
    ctx.res.counts["transport:" + (tr or "plain")] += 1
    model = json.loads(json.dumps(doc))
    base = {"style": sname, "text": text, "model": model}
    # ---- hooked loader: position of EVERY scalar node
    r = ctx.w.run({"k": "load", "which": "validate", "text": text})
    ctx.res.cases += 1
    if r.get("r") != "ok":
        if core.crash_signature(r):
            ctx.inconclusive("crash")
            return
        # the loader refuses the text (a known C11 finding for surrogate-pair escapes): if `validate` nevertheless produces a report
        # for it (through some other reader), every position it states is still held to the text
        ctx.res.counts["loader_refused_text"] += 1
    for nd in (json.loads(r["out"]) if r.get("r") == "ok" else []):
        if nd["path"] in pos:
            ctx.res.counts["positions_checked"] += 1
            el, ec = pos[nd["path"]]
            if ec > 20:
                ctx.res.counts["positions_col_gt_20"] += 1
            if el > 10:
                ctx.res.counts["positions_line_gt_10"] += 1
            if (nd["line"], nd["col"]) != (el, ec):
                ctx.violation("position:loader:%s:%s" % (sname_t, kinds[nd["path"]]), "scalar %s starts at line %d col %d in the %s text, the loader records L:%d,C:%d" % (
                    nd["path"], el, ec, sname, nd["line"], nd["col"]), dict(base, kind="load"))
                return
    # ---- reports
    rtext, info = build_rules(rng, doc)
    ext = ".json" if sname.startswith("json") else ".yaml"
    r = ctx.w.run({"k": "cli", "argv": ["validate", "-r", "{S}/r.guard", "-d", "{S}/d" + ext, "--structured", "-S", "none", "-o", "json"], "files": {"r.guard": rtext, "d" + ext: text}})
    ctx.res.cases += 1
    case = dict(base, kind="report", rules=rtext)
    if r.get("r") != "ok":
        ctx.inconclusive("crash" if core.crash_signature(r) else "validate-error")
        return
    rep = json.loads(r["out"])[0]
    items = []
    for e in rep.get("not_compliant", []):
        walk_report(e, items, None)
    seen_rules = set()
    for rule, slot, d, msg in items:
        inf = info.get(rule)
        if inf is None or d is None:
            continue
        seen_rules.add(rule)
        ctx.res.counts["reported_%s" % slot] += 1
        if slot == "unresolved":
            tv = d.get("traversed_to") or {}
            tp, rq = tv.get("path"), d.get("remaining_query", "")
            qp = inf["path"]
            found, val = resolve(model, tp) if tp is not None else (False, None)
            depth = tp.count("/") if tp else 0
            ctx.res.extra.setdefault("unresolved_depths", set()).add(min(depth, 5))
            if inf["kind"] == "uf":
                # the point reached is a scalar element of an inner list: two levels below the filtered list
                if not found or not re.match("^" + re.escape(qp) + r"/\d+/\d+$", tp or ""):
                    ctx.violation("unresolved:filter-then-all-indices", "rule %s filters %s and iterates the selected inner lists, but reports reaching %r" % (rule, qp, tp), case)
                    return
                if not strict_eq(tv.get("value"), val):
                    ctx.violation("unresolved:value-mismatch", "rule %s: value reported at %s is %r, document has %r" % (rule, tp, tv.get("value"), val), case)
                    return
                ctx.res.counts["filter_then_allidx_items"] += 1
            if inf["kind"] in ("u",):
                if not found:
                    ctx.violation("unresolved:traversed-to-not-in-document", "rule %s: traversed_to path %r does not exist in the document" % (rule, tp), case)
                    return
                if not (qp == tp or qp.startswith(tp + "/") or tp == ""):
                    ctx.violation("unresolved:traversed-to-off-path", "rule %s queried below %s, reports reaching %s" % (rule, qp, tp), case)
                    return
                if tp != qp:
                    ctx.violation("unresolved:stopped-early", "rule %s: %s exists in the document but the report stops at %s" % (rule, qp, tp), case)
                    return
                if not strict_eq(tv.get("value"), val):
                    ctx.violation("unresolved:value-mismatch", "rule %s: value reported at %s is %r, document has %r" % (rule, tp, tv.get("value"), val), case)
                    return
                ok2, _ = resolve(model, tp + "/" + inf["missing"])
                if ok2:
                    ctx.violation("unresolved:segment-exists", "rule %s: segment %s exists below %s" % (rule, inf["missing"], tp), case)
                    return
            continue
        p = d.get("path")
        if slot == "to" and inf["kind"] != "q":
            continue            # literal right-hand side
        found, val = resolve(model, p)
        if not found:
            ctx.violation("%s:path-not-in-document" % slot, "rule %s: reported path %r does not resolve in the document" % (rule, p), case)
            return
        if not strict_eq(d.get("value"), val):
            ctx.violation("%s:value-mismatch" % slot, "rule %s: %s reports %r at %s, the document has %r there" % (rule, slot, d.get("value"), p, val), case)
            return
        if inf["kind"] == "q" and p not in (inf["path"], inf["to"]):
            ctx.violation("%s:wrong-path" % slot, "rule %s compares %s with %s but reports %s %s" % (rule, inf["path"], inf["to"], slot, p), case)
            return
        if inf["kind"] in ("s", "i") and slot == "from" and p != inf["path"]:
            ctx.violation("from:wrong-path", "rule %s queried %s but reports from %s" % (rule, inf["path"], p), case)
            return
        if inf["kind"] == "lf" and slot == "from":
            ctx.res.counts["filter_then_allidx_items"] += 1
            if not re.match("^" + re.escape(inf["path"]) + r"/\d+/\d+$", p):
                ctx.violation("from:filter-then-all-indices", "rule %s filters %s and iterates the selected inner lists, but reports from %s" % (rule, inf["path"], p), case)
                return
        if inf["kind"] == "l" and slot == "from" and not p.startswith(inf["path"] + "/"):
            ctx.violation("from:wrong-path", "rule %s iterates %s but reports from %s" % (rule, inf["path"], p), case)
            return
        ctx.res.distinct.add((sname, slot, inf["kind"], min(p.count("/"), 5)))
        # positions quoted in the message
        for m in PATH_RE.finditer(msg or ""):
            mp, ml, mc = m.group(1), int(m.group(2)), int(m.group(3))
            if mp in pos:
                ctx.res.counts["message_positions_checked"] += 1
                if (ml, mc) != pos[mp]:
                    ctx.violation("position:message:%s" % sname_t, "message of rule %s places %s at L:%d,C:%d, the %s text has it at line %d col %d" % (
                        rule, mp, ml, mc, sname, pos[mp][0], pos[mp][1]), case)
                    return
    missing = [k for k, v in info.items() if k not in seen_rules and v["kind"] in ("s", "u", "i")]
    if missing:
        ctx.res.counts["rules_without_report_items"] += len(missing)
    if len(ctx.res.samples) < 2 and sname == "yaml-block":
        ctx.sample({"style": sname, "text": text[:400], "rules": rtext[:300], "report_items": len(items)})


def shard(ctx):
    rng = ctx.rng("c10")
    # ---- queries spelled in another case convention than the document (the evaluator's documented-by-example fallback): an unresolved
    #      report must still stop at the deepest point the query reached THROUGH that fallback
    if ctx.mine(1):
        cdoc = {"Resources": {"logs": {"Properties": {"BucketName": "x", "Tags": [{"Key": "k"}], "retention_days": 7}}}}
        probes = [("resources.logs.properties.bucketEncryption exists", "/Resources/logs/Properties"),
                  ("resources.logs.properties.bucket_name.zz == 1", "/Resources/logs/Properties/BucketName"),
                  ("Resources.logs.properties.tags[0].nokey exists", "/Resources/logs/Properties/Tags/0"),
                  ("resources.nosuch.properties exists", "/Resources"),
                  # (one convention per query: keys of a second convention inside the same query are not followed, so none is probed)
                  ("resources.*.properties.nothing exists", "/Resources/logs/Properties")]
        ctext = "".join("rule cc%d {\n    %s\n}\n" % (i, c) for i, (c, _e) in enumerate(probes))
        r = ctx.w.run({"k": "cli", "argv": ["validate", "-r", "{S}/r.guard", "-d", "{S}/d.json", "--structured", "-S", "none", "-o", "json"],
                       "files": {"r.guard": ctext, "d.json": json.dumps(cdoc)}})
        ctx.res.cases += 1
        if r.get("r") != "ok":
            ctx.inconclusive("crash" if core.crash_signature(r) else "case-convention-gadget-error")
        else:
            rep = json.loads(r["out"])[0]
            seen_ = {}

            def walk_(e, rule=None):
                (k_, v_), = e.items()
                if k_ in ("Rule", "Disjunctions"):
                    for c_ in v_.get("checks", []):
                        walk_(c_, v_.get("name", rule) if k_ == "Rule" else rule)
                elif k_ == "Clause":
                    (_ck, cv_), = v_.items()
                    ur = (cv_.get("check") or {}).get("UnResolved")
                    if isinstance(ur, dict):
                        seen_.setdefault(rule, []).append(((ur.get("value") or {}).get("traversed_to") or {}).get("path"))
            for e_ in rep.get("not_compliant", []):
                walk_(e_)
            for i, (c, want_) in enumerate(probes):
                got_ = seen_.get("cc%d" % i)
                ctx.res.counts["case_convention_probes"] += 1
                if got_ is None or any(g_ != want_ for g_ in got_):
                    ctx.violation("unresolved:case-convention:traversed-to", "`%s`: the query reaches %s (through another spelling of the keys) but the report stops at %s" % (c, want_, got_),
                                  {"kind": "caseconv", "rules": ctext, "doc": cdoc, "expected": {("cc%d" % j): w_ for j, (_c, w_) in enumerate(probes)}})
                    break
            else:
                ctx.res.distinct.add(("case-convention", len(probes)))
    # ---- the template-aware console view (default output on CloudFormation-shaped data): every `PropertyPath = <pointer>` printed next to a
    #      `Value = <v>` must resolve to that value - also for clauses whose left side is a variable / a parameter and whose right side
    #      lies inside a resource
    if ctx.mine(2):
        for rep_ in range(6 if ctx.quick else 120):
            vals = rng.sample([5, 10, 11, 42, "data-bucket", "logs-bucket", "x", True, 2.5], 4)
            tdoc = {"Parameters": {"MaxSize": {"Type": "Number", "Default": vals[0]}, "Name": {"Default": vals[1]}},
                    "Resources": {"bucket": {"Type": "AWS::S3::Bucket", "Properties": {"BucketName": vals[2], "Size": vals[3], "Tags": [{"Key": "k", "Value": vals[0]}]}},
                                  "topic": {"Type": "AWS::SNS::Topic", "Properties": {"DisplayName": vals[1], "Size": vals[2]}}}}
            ctext = ("let allowed = %s\nrule a {\n    %%allowed == Resources.bucket.Properties.BucketName\n}\n"
                     "rule b {\n    Parameters.MaxSize.Default == Resources.bucket.Properties.Size\n    Parameters.Name.Default == Resources.topic.Properties.Size\n}\n"
                     "rule c {\n    Resources.*.Properties.Size == %s\n}\nrule d {\n    Resources.bucket.Properties.Tags[*].Value == Parameters.Name.Default\n}\n"
                     "rule e {\n    Parameters.MaxSize.Default in Resources.*.Properties.Size\n}\n") % (gen.glit(vals[1]), gen.glit("never-" + str(rep_)))
            ttext = json.dumps(tdoc, indent=rng.choice([1, 2, 4]))
            r = ctx.w.run({"k": "cli", "argv": ["validate", "-r", "{S}/r.guard", "-d", "{S}/t.json"], "files": {"r.guard": ctext, "t.json": ttext}})
            ctx.res.cases += 1
            if r.get("r") != "ok":
                ctx.inconclusive("crash" if core.crash_signature(r) else "console-gadget-error")
                continue
            lines_ = r["out"].split("\n")
            npairs = 0
            for li, ln_ in enumerate(lines_):
                m_ = re.match(r"^\s*PropertyPath\s*=\s*(/\S*?)\[L:(\d+),C:(\d+)\]\s*$", ln_)
                if not m_:
                    continue
                val_line = next((x for x in lines_[li + 1:li + 5] if re.match(r"^\s*Value\s*=", x)), None)
                if val_line is None:
                    continue
                try:
                    shown = json.loads(val_line.split("=", 1)[1].strip())
                except ValueError:
                    continue
                node, okp = tdoc, True
                for seg in m_.group(1).strip("/").split("/"):
                    if isinstance(node, dict) and seg in node:
                        node = node[seg]
                    elif isinstance(node, list) and seg.isdigit() and int(seg) < len(node):
                        node = node[int(seg)]
                    else:
                        okp = False
                        break
                npairs += 1
                ctx.res.counts["console_path_value_pairs"] += 1
                if not okp or type(node) is not type(shown) or node != shown:
                    ctx.violation("console:cfn:path-value", "the console report prints PropertyPath %s with Value %s, the document has %s there" % (
                        m_.group(1), json.dumps(shown), json.dumps(node) if okp else "nothing"), {"kind": "console", "rules": ctext, "text": ttext})
                    break
            if npairs:
                ctx.res.distinct.add(("console-cfn", min(npairs, 6)))
    # ---- a captured map key (`Resources[ name | .. ]`, then `%name == ..`): the value compared is the key; the path reported with it has to lead to it
    if ctx.mine(3):
        kdoc = {"Resources": {"B1": {"Type": "T", "P": {"x": 1}}, "B2": {"Type": "U"}, "B3": {"Type": "T"}}}
        ktext = ("rule k0 {\n    Resources[ n | Type == \"T\" ] exists\n    %n == \"zzz\"\n}\n"
                 "rule k1 {\n    Resources.B1[ m | x exists ] exists\n    %m in [\"a\", \"b\"]\n}\n")
        r = ctx.w.run({"k": "cli", "argv": ["validate", "-r", "{S}/r.guard", "-d", "{S}/d.json", "--structured", "-S", "none", "-o", "json"],
                       "files": {"r.guard": ktext, "d.json": json.dumps(kdoc)}})
        ctx.res.cases += 1
        if r.get("r") != "ok":
            ctx.inconclusive("crash" if core.crash_signature(r) else "key-capture-gadget-error")
        else:
            froms = []

            def walk_k(e):
                if isinstance(e, dict):
                    for k_, v_ in e.items():
                        if k_ in ("Resolved", "InResolved") and isinstance(v_, dict) and isinstance(v_.get("from"), dict):
                            froms.append(v_["from"])
                        walk_k(v_)
                elif isinstance(e, list):
                    for x_ in e:
                        walk_k(x_)
            walk_k(json.loads(r["out"])[0].get("not_compliant", []))
            ctx.res.counts["captured_key_reports"] += len(froms)
            if not froms:
                ctx.inconclusive("key-capture-gadget-no-report")
            for fr in froms:
                node = kdoc
                try:
                    for seg in [x for x in fr.get("path", "").split("/") if x != ""]:
                        node = node[int(seg)] if isinstance(node, list) else node[seg]
                except (KeyError, IndexError, ValueError, TypeError):
                    node = KeyError
                if node == fr.get("value"):
                    ctx.res.distinct.add(("captured-key", "resolves"))
                elif isinstance(node, dict) and fr.get("value") in node:
                    ctx.violation("from:captured-key:path-of-the-enclosing-map", "a captured key is reported as value %s with path %r, which is the map that holds the key, not the value" % (
                        json.dumps(fr.get("value")), fr.get("path")), {"kind": "keycapture", "rules": ktext, "data": json.dumps(kdoc)})
                else:
                    ctx.violation("from:captured-key:value-mismatch", "a captured key is reported as value %s with path %r, which resolves to %s" % (
                        json.dumps(fr.get("value")), fr.get("path"), "nothing" if node is KeyError else json.dumps(node)[:80]), {"kind": "keycapture", "rules": ktext, "data": json.dumps(kdoc)})
    n = 30 if ctx.quick else 3000
    for t in range(n):
        doc = gen.gen_doc(rng, scalars=SCALARS, depth=5)
        if not all("/" not in k for p, v in gen.walk(doc) if isinstance(v, dict) for k in v):
            continue
        if t % 5 == 0:
            # a long document so that lines > 10 and columns > 20 are common
            doc = {"k%d" % i: gen.gen_value(rng, 3, SCALARS, gen.KEYS[:8]) for i in range(12)}
        if isinstance(doc, dict) and t % 2 == 0:
            doc = dict(doc)
            doc["g"] = [[rng.choice(SCALARS[:12]) for _ in range(rng.randint(1, 3))] for _ in range(rng.randint(1, 3))] + ([[]] if rng.random() < 0.4 else [])
        if isinstance(doc, dict) and t % 3 == 1:
            # doubles with random bit patterns and 64-bit integers: the reported value must be exactly the document's
            import math
            import struct
            fl = []
            while len(fl) < 2:
                f = struct.unpack("<d", struct.pack("<Q", rng.getrandbits(64)))[0]
                if math.isfinite(f) and f != 0:
                    fl.append(f)
            doc = dict(doc)
            doc["n"] = fl + [rng.randint(-2 ** 63, 2 ** 63 - 1)]
        if isinstance(doc, dict) and t % 4 == 2:
            # an empty-string key with a map / list below it: the reported paths of its descendants carry an empty segment (`/e//x`)
            doc = dict(doc)
            doc["e"] = {"": {"x": rng.choice(SCALARS[:12]), "": rng.choice(SCALARS[:12]), "l": [rng.choice(SCALARS[:12]), {"": rng.choice(SCALARS[:12])}]}, "x": rng.choice(SCALARS[:12])}
            ctx.res.counts["documents_with_empty_string_keys"] += 1
        if isinstance(doc, dict) and t % 3 == 0:
            # a list with more than ten elements (ingress rules, tags): the paths of elements 9, 10, 11 .. and of what lies beneath them
            doc = dict(doc)
            doc["w"] = [rng.choice(SCALARS[:12]) if rng.random() < 0.6 else {"c": rng.choice(SCALARS[:12]), "l": [rng.choice(SCALARS[:12])]} for _ in range(rng.randint(11, 14))]
            ctx.res.counts["documents_with_long_lists"] += 1
        for sname in ser.STYLES:
            check_doc(ctx, rng, doc, sname)


def replay(case, w):
    found = []
    if case.get("kind") == "keycapture":
        r = w.run({"k": "cli", "argv": ["validate", "-r", "{S}/r.guard", "-d", "{S}/d.json", "--structured", "-S", "none", "-o", "json"],
                   "files": {"r.guard": case["rules"], "d.json": case["data"]}})
        if r.get("r") != "ok":
            return False, "evaluation failed"
        doc = json.loads(case["data"])
        bad = []
        for m_ in re.finditer(r'"from":\s*\{\s*"path":\s*"([^"]*)",\s*"value":\s*("[^"]*")', r["out"]):
            node = doc
            try:
                for seg in [x for x in m_.group(1).split("/") if x != ""]:
                    node = node[int(seg)] if isinstance(node, list) else node[seg]
            except (KeyError, IndexError, ValueError, TypeError):
                node = None
            if node != json.loads(m_.group(2)):
                bad.append((m_.group(1), m_.group(2)))
        return not bad, "captured keys whose path does not lead to them: %s" % bad
    if case.get("kind") == "console":
        r = w.run({"k": "cli", "argv": ["validate", "-r", "{S}/r.guard", "-d", "{S}/t.json"], "files": {"r.guard": case["rules"], "t.json": case["text"]}})
        doc = json.loads(case["text"])
        lines_ = r.get("out", "").split("\n")
        for li, ln_ in enumerate(lines_):
            m_ = re.match(r"^\s*PropertyPath\s*=\s*(/\S*?)\[L:(\d+),C:(\d+)\]\s*$", ln_)
            val_line = next((x for x in lines_[li + 1:li + 5] if re.match(r"^\s*Value\s*=", x)), None) if m_ else None
            if not m_ or val_line is None:
                continue
            node = doc
            try:
                for seg in m_.group(1).strip("/").split("/"):
                    node = node[int(seg)] if isinstance(node, list) else node[seg]
                if node != json.loads(val_line.split("=", 1)[1].strip()):
                    return False, "path %s printed with another value" % m_.group(1)
            except (KeyError, IndexError, ValueError, TypeError):
                return False, "path %s does not resolve" % m_.group(1)
        return True, "console pairs consistent"
    if case.get("kind") == "caseconv":
        r = w.run({"k": "cli", "argv": ["validate", "-r", "{S}/r.guard", "-d", "{S}/d.json", "--structured", "-S", "none", "-o", "json"],
                   "files": {"r.guard": case["rules"], "d.json": json.dumps(case["doc"])}})
        if r.get("r") != "ok":
            return False, "run failed"
        text = r["out"]
        bad = [k for k, v in case["expected"].items() if text.count('"path": "%s"' % v) == 0]
        return not bad, "expected stopping points missing for %s" % bad

    class Ctx(core.Ctx):
        def violation(self, sig, what, rp):
            found.append(sig)
    res = core.ShardResult()
    c = Ctx(w, 0, 1, 1, "quick", res, {"prop": "C10"})
    import random
    # re-check the recorded text: positions by the loader probe
    r = w.run({"k": "load", "which": "validate", "text": case["text"]})
    if r.get("r") != "ok":
        return True, "load error"
    # regenerate emitter positions is not possible from text alone; re-run the whole document in the recorded style
    check_doc(c, random.Random(3), case["model"], case["style"])
    return not found, "violations %s" % found


def main(tier, seed):
    t0 = time.time()
    core.build()
    res = core.run_shards(shard, seed, tier, "C10")
    c = res.counts
    floor = {"cases": (res.cases, 1500), "positions_checked": (c["positions_checked"], 10000), "positions_col_gt_20": (c["positions_col_gt_20"], 1000),
             "positions_line_gt_10": (c["positions_line_gt_10"], 1000), "reported_from": (c["reported_from"], 3000), "reported_unresolved": (c["reported_unresolved"], 1000),
             "message_positions_checked": (c["message_positions_checked"], 3000)}
    return core.finish("C10", tier, seed, res, t0,
                       rule="generated documents (depth <=5, unicode and long strings, keys without '/') x 4 serialisations with random layout; per document one failing "
                            "clause per scalar node, unresolved probes below every map/list/scalar, `in`, list-iteration and query-RHS clauses; every reported path/"
                            "value resolved in the model by an independent pointer walk; every [L,C] compared with the emitter's record; distinct = (style, slot, clause kind, depth)",
                       floor=floor,
                       assumptions=["only scalar positions are asserted (collection marks are style dependent)", "multi-line and block scalars are not generated; tabs never indent"])
