"""C11 - a document means the same however it is written or loaded.

Every generated document is serialised as JSON compact / JSON pretty / YAML flow / YAML block (random
quoting, indent, comments) and loaded by the validate loader, the test loader and the library loader.
Observation channels: (a) the hooked loader probes (every node: path, type, value, key order),
(b) verdicts: `this == <document as a Guard literal>` and per-path `is_*` probes through validate / test /
run_checks, (c) the value dumped by a deliberately failing root clause. Tag table: every CloudFormation
short form x {scalar, sequence} payload x nesting == its long form. Ill-formed text and non-string keys
must be rejected by every loader.
"""
import json
import math
import time

from .. import core, gen, obs, ser

EXTRA = [0.75, -0.25, 0.5, "é x", "日本", "007", "1e3", "a: b", "it's", 'q"d', 2 ** 63 - 1, -(2 ** 63), 1e308, 5e-324, -0.0, -1.5, "null", "True", "~", " lead", "trail ", "a#b",
         "a #b", "-dash", "[b]", "{c}", "a,b", "@at", "%pc", "&amp", "*star", "!bang", "|pipe", ">gt", "?q", "", "0x10", "1_000", "yes", "No", ".5", "5.", "inf", "NaN", "+1"]
# strings that the YAML block emitter writes as literal / folded block scalars (multi-line, trailing newline, number- and keyword-looking single lines)
BLOCKY = ["line one\nline two\n", "20240117", "false", "a\nb", "x\n", "multi\n\nline", "null", "1.5", "~", "k: v\n- x", "# not a comment\n"]
SCALARS = gen.SCALARS + EXTRA + BLOCKY

TAGS = {"Ref": "Ref", "GetAtt": "Fn::GetAtt", "Base64": "Fn::Base64", "Sub": "Fn::Sub", "GetAZs": "Fn::GetAZs", "ImportValue": "Fn::ImportValue",
        "Condition": "Condition", "RefAll": "Fn::RefAll", "Select": "Fn::Select", "Split": "Fn::Split", "Join": "Fn::Join", "FindInMap": "Fn::FindInMap",
        "And": "Fn::And", "Equals": "Fn::Equals", "Contains": "Fn::Contains", "EachMemberIn": "Fn::EachMemberIn", "EachMemberEquals": "Fn::EachMemberEquals",
        "ValueOf": "Fn::ValueOf", "If": "Fn::If", "Not": "Fn::Not", "Or": "Fn::Or"}
SINGLE = {"Ref", "Base64", "Sub", "GetAZs", "ImportValue", "GetAtt", "Condition", "RefAll"}
SEQ = {"GetAtt", "Sub", "Select", "Split", "Join", "FindInMap", "And", "Equals", "Contains", "EachMemberIn", "EachMemberEquals", "ValueOf", "If", "Not", "Or"}


# shapes a loader could confuse with its own bookkeeping (placeholders of tagged values are single-key maps with a null value; empty
# containers; nulls next to containers; long-form intrinsics written out by hand) - every one is ordinary data and must load as written
_N = None
STRUCTS = [
    {"a": [{"Default": _N}, ["a", "b"], 3]}, {"a": [{"Fn::Join": _N}, ["x", "y"]]}, {"a": [{"Ref": _N}, "s", [1]]}, {"a": [{"k": _N}, {"k2": _N}, [], {}]},
    {"a": {"Fn::Join": _N, "b": [1]}}, {"a": {"k": _N}, "b": ["x"]}, {"a": [[{"k": _N}], [[1]]]}, {"a": [_N, [_N], {"n": _N}, [[], {}]]},
    {"a": [[], {}, [[]], [{}], {"e": []}, {"e": {}}]}, {"a": [{"Ref": "x"}, {"Fn::GetAtt": ["r", "a"]}, {"Fn::Sub": "${x}"}, {"Condition": "c"}]},
    {"a": {"Fn::If": ["c", {"Ref": "x"}, {"Ref": "AWS::NoValue"}]}, "b": {"Fn::Join": ["", ["a", {"Ref": "b"}]]}},
    {"a": [{"k": _N}, ["l"]], "b": [{"k": _N}, {"m": ["l"]}], "c": [["l"], {"k": _N}]}, {"a": [{"k": ""}, ["l"]], "b": [{"k": 0}, ["l"]], "c": [{"k": False}, ["l"]]},
    {"a": [{"k": _N, "j": _N}, ["l"]]}, {"a": {"x": [{"y": [{"z": _N}, [1, [2, [3]]]]}]}}, {"Resources": {"r": {"Type": "T", "Properties": {"p": [{"Ref": _N}, ["a"]]}}}},
    {"a": [1, [2, [3, [4, [5, [6]]]]]], "b": {"c": {"d": {"e": {"f": {"g": _N}}}}}}, {"a": ["", " ", "null", "~", "[]", "{}"], "b": [0, -0.0, 0.0, False, _N, ""]},
]


def strict_eq(a, b):
    if type(a) is not type(b):
        return False
    if isinstance(a, dict):
        return list(a.keys()) == list(b.keys()) and all(strict_eq(a[k], b[k]) for k in a)
    if isinstance(a, list):
        return len(a) == len(b) and all(strict_eq(x, y) for x, y in zip(a, b))
    if isinstance(a, float):
        return a == b and math.copysign(1, a) == math.copysign(1, b)
    return a == b


def from_dump(nodes):
    """rebuild a python value from the hooked loader dump (type-strict)"""
    by = {n["path"]: n for n in nodes}

    def build(p):
        n = by[p]
        t = n["type"]
        if t == "map":
            return {k: build(p + "/" + k) for k in n["value"]["order"]}
        if t == "list":
            return [build("%s/%d" % (p, i)) for i in range(n["value"])]
        if t == "float":
            return float(n["value"])
        if t == "int":
            return int(n["value"])
        if t in ("bool", "string"):
            return n["value"]
        if t == "null":
            return None
        return {"$" + t: n["value"]}
    return build("")


def keys_safe(doc):
    return all("/" not in k for p, v in gen.walk(doc) if isinstance(v, dict) for k in v)


def shard(ctx):
    rng = ctx.rng("c11")
    n = 40 if ctx.quick else 1100
    # wide (not deep) documents: hundreds of siblings below one list / one map
    wide = [{"records": [{"id": i, "name": "r%d" % i} for i in range(620)], "k": "v"},
            {"Resources": {"res%03d" % i: {"Type": "AWS::S3::Bucket", "Properties": {"n": i}} for i in range(330)}},
            {"l": list(range(1500)), "m": {"k%04d" % i: "v" for i in range(700)}}]
    corpus = [d for i, d in enumerate(STRUCTS + wide) if ctx.mine(i)]
    for t in range(n + len(corpus)):
        doc = corpus[t] if t < len(corpus) else gen.gen_doc(rng, scalars=SCALARS)
        if t < len(corpus):
            ctx.res.counts["structure_corpus_documents"] += 1
        elif isinstance(doc, dict) and rng.random() < 0.35:
            # doubles with random bit patterns (17 significant digits, extreme exponents): every loader must read the same double
            import struct
            fl = []
            while len(fl) < 3:
                f = struct.unpack("<d", struct.pack("<Q", rng.getrandbits(64)))[0]
                if math.isfinite(f) and f != 0:
                    fl.append(f)
            doc = dict(doc)
            doc["n"] = fl
            ctx.res.counts["documents_with_random_doubles"] += 1
        if not keys_safe(doc):
            continue
        model = json.loads(json.dumps(doc))     # normalise (tuples etc.)
        for sname, fn in ser.STYLES.items():
            text, pos, kinds = fn(doc, rng)
            # transport variants that leave the meaning unchanged: CRLF line ends, leading/trailing blank lines, tab-indented JSON
            tr = rng.choice(["", "", "", "+crlf", "+blank-lines", "+tabs"])
            if tr == "+crlf":
                text = text.replace("\n", "\r\n")
            elif tr == "+blank-lines":
                text = "\n" * rng.randint(1, 2) + text + "\n" * rng.randint(1, 2)
            elif tr == "+tabs" and sname == "json-pretty":
                text = "\n".join("\t" * (len(ln) - len(ln.lstrip(" "))) + ln.lstrip(" ") for ln in text.split("\n"))
            else:
                tr = ""
            sname = sname + tr
            for k in set(kinds.values()):
                ctx.res.extra.setdefault("spelling_x_style", set()).add("%s:%s" % (sname.split("+")[0], k))
            # ---- (a) hooked loader probes, both loaders
            for which in ("validate", "serde"):
                r = ctx.w.run({"k": "load", "which": which, "text": text})
                ctx.res.cases += 1
                case = {"kind": "load", "which": which, "style": sname, "text": text, "model": model}
                if r.get("r") != "ok":
                    if core.crash_signature(r):
                        ctx.inconclusive("crash")
                    else:
                        ctx.violation("load-error:%s:%s" % (which, sname), "well-formed %s text rejected by the %s loader: %s" % (sname, which, r.get("err", "")[:200]), case)
                    continue
                got = from_dump(json.loads(r["out"]))
                if not strict_eq(got, model):
                    d = first_diff(got, model)
                    ctx.violation("loaded-value:%s:%s:%s" % (which, sname, d[0]), "%s loader, %s: %s" % (which, sname, d[1]), case)
                else:
                    ctx.res.distinct.add(("load", which, sname))
            # ---- (b)/(c) verdict channels through the three front ends
            if gen.lit_spellable(model) and isinstance(model, dict):
                probes = ["rule same {\n    this == %s\n}\n" % gen.glit(model)]
                pi = 0
                for p, v in gen.walk(model):
                    if not p or pi > 25:
                        continue
                    q = gen.pquery([["key", x] if isinstance(x, str) else ["idx", x] for x in p])
                    ty = {"str": "is_string", "int": "is_int", "float": "is_float", "bool": "is_bool", "NoneType": "is_null", "list": "is_list", "dict": "is_struct"}[type(v).__name__]
                    probes.append("rule p%d {\n    %s %s\n}\n" % (pi, q, ty))
                    pi += 1
                rtext = "".join(probes)
                outs = {}
                refused = {}
                # validate (file, libyaml loader)
                ext = ".json" if sname.startswith("json") else ".yaml"
                r = ctx.w.run({"k": "cli", "argv": ["validate", "-r", "{S}/r.guard", "-d", "{S}/d" + ext, "--structured", "-S", "none", "-o", "json"],
                               "files": {"r.guard": rtext, "d" + ext: text}})
                if r.get("r") == "ok":
                    try:
                        outs["validate"] = obs.report_statuses(json.loads(r["out"])[0])
                    except (ValueError, IndexError):
                        pass
                else:
                    refused["validate"] = r
                # payload
                r = ctx.w.run({"k": "cli", "argv": ["validate", "--payload", "--structured", "-S", "none", "-o", "json"], "stdin": json.dumps({"rules": [rtext], "data": [text]})})
                if r.get("r") == "ok":
                    try:
                        outs["payload"] = obs.report_statuses(json.loads(r["out"])[0])
                    except (ValueError, IndexError):
                        pass
                else:
                    refused["payload"] = r
                # library
                r = ctx.w.run({"k": "rc", "data": text, "rules": rtext, "verbose": False})
                if r.get("r") == "ok":
                    outs["run_checks"] = obs.report_statuses(json.loads(r["out"]))
                else:
                    refused["run_checks"] = r
                # test (input embedded in a YAML test spec: the document text indented under `input:`)
                names = ["same"] + ["p%d" % i for i in range(pi)]
                if sname in ("yaml-block", "json-pretty", "json-compact", "yaml-flow"):
                    body = text
                    if body.startswith("---\n"):
                        body = body[4:]
                    spec = "- name: c\n  input:\n" + "".join("    " + l + "\n" for l in body.rstrip("\n").split("\n")) + "  expectations:\n    rules:\n" + "".join("      %s: PASS\n" % nm for nm in names)
                    r = ctx.w.run({"k": "cli", "argv": ["test", "-r", "{S}/r.guard", "-t", "{S}/t.yaml", "-o", "json"], "files": {"r.guard": rtext, "t.yaml": spec}})
                    if r.get("r") == "ok":
                        try:
                            tc = json.loads(r["out"])["test_cases"][0]
                            st = {x["name"]: ["PASS"] for x in tc["passed_rules"]}
                            st.update({x["name"]: list(x["evaluated"]) for x in tc["failed_rules"]})
                            outs["test"] = st
                        except (ValueError, KeyError, IndexError):
                            pass
                # a front end that refuses a text the others evaluate
                for fe, rr in refused.items():
                    if not outs:
                        break
                    if core.crash_signature(rr):
                        ctx.inconclusive("crash")
                        continue
                    ctx.violation("verdict:%s:%s:refused" % (fe, sname), "%s refuses a %s text that %s evaluate: %s" % (fe, sname, sorted(outs), (rr.get("emsg") or rr.get("err") or "")[:200]),
                                  {"kind": "verdict", "frontend": fe, "style": sname, "text": text, "rules": rtext, "model": model})
                for fe, st in outs.items():
                    ctx.res.cases += 1
                    ctx.res.extra.setdefault("frontends", set()).add(fe)
                    bad = {k: v for k, v in st.items() if v != ["PASS"]}
                    case = {"kind": "verdict", "frontend": fe, "style": sname, "text": text, "rules": rtext, "model": model}
                    if bad or set(st) != set(names):
                        ctx.violation("verdict:%s:%s:%s" % (fe, sname, "literal-equality" if "same" in bad else "type-probe"),
                                      "%s on %s: document does not equal its Guard literal / type probes: %s" % (fe, sname, bad or "rules missing"), case)
                    else:
                        ctx.res.distinct.add(("verdict", fe, sname))
            if len(ctx.res.samples) < 2 and sname == "yaml-block":
                ctx.sample({"model": model, "yaml_block_text": text[:500]})

    # ---------------------------------------------------------------- JSON string escapes (what `json.dumps` with ensure_ascii writes)
    if ctx.mine(2):
        probes = [("bmp-escape", '{"a": "caf\\u00e9", "b": [1, "\\u65e5\\u672c"]}'), ("solidus-and-controls", '{"a": "x\\/y\\b\\f\\n\\r\\t\\"q\\\\"}'),
                  ("surrogate-pair", '{"a": "go \\ud83d\\ude80", "b": 1}'), ("surrogate-pair-key", '{"k\\ud83d\\ude80": 1}'), ("raw-astral", '{"a": "go \U0001F680", "b": 1}'),
                  ("nul-escape", '{"a": "x\\u0000y"}'), ("escaped-ascii", '{"\\u0061": "\\u0041"}')]
        for name, text in probes:
            model = json.loads(text)
            for which in ("validate", "serde"):
                r = ctx.w.run({"k": "load", "which": which, "text": text})
                ctx.res.cases += 1
                ctx.res.counts["json_escape_probes"] += 1
                case = {"kind": "load", "which": which, "style": "json-escapes:" + name, "text": text, "model": model}
                if r.get("r") != "ok":
                    if core.crash_signature(r):
                        ctx.inconclusive("crash")
                    else:
                        ctx.violation("json-escapes:%s:%s:rejected" % (name, which), "well-formed JSON %s is rejected by the %s loader: %s" % (text, which, (r.get("err") or "")[:120]), case)
                    continue
                got = from_dump(json.loads(r["out"]))
                if not strict_eq(got, model):
                    ctx.violation("json-escapes:%s:%s:value" % (name, which), "%s loader reads %s as %r" % (which, text, got), case)
                else:
                    ctx.res.distinct.add(("json-escapes", name, which))
    # ---------------------------------------------------------------- YAML core-schema tags (!!str, !!int, ...): explicit typing of a scalar
    if ctx.mine(1):
        core_tags = [("!!str 5", "5"), ("!!str true", "true"), ("!!str null", "null"), ("!!str ''", ""), ("!!int 5", 5), ("!!int '7'", 7), ("!!int -3", -3),
                     ("!!float 1.5", 1.5), ("!!float 2", 2.0), ("!!float '1e3'", 1000.0), ("!!bool true", True), ("!!bool 'false'", False), ("!!null ~", None), ("!!null null", None),
                     ("!!str 1e3", "1e3"), ("!!str 0x10", "0x10")]
        for spelled, want in core_tags:
            for tmpl, getter in (("k: %s\n", lambda d: d["k"]), ("k:\n  - %s\n  - x\n", lambda d: d["k"][0]), ("{k: {j: %s}}\n", lambda d: d["k"]["j"])):
                text = tmpl % spelled
                got = {}
                for which in ("validate", "serde"):
                    r = ctx.w.run({"k": "load", "which": which, "text": text})
                    ctx.res.cases += 1
                    try:
                        got[which] = ("value", getter(from_dump(json.loads(r["out"])))) if r.get("r") == "ok" else ("error", None)
                    except (KeyError, IndexError, TypeError, ValueError):
                        got[which] = ("odd", None)
                ctx.res.counts["core_tag_probes"] += 1
                case = {"kind": "coretag", "text": text, "want": want, "where": tmpl}
                for which, (kind_, val) in got.items():
                    if kind_ != "value" or not strict_eq(val, want):
                        ctx.violation("core-tag:%s:%s" % (which, spelled.split(" ")[0]), "`%s` must load as %r; the %s loader gives %s %r" % (text.strip(), want, which, kind_, val), case)
                        break
                else:
                    ctx.res.distinct.add(("core-tag", spelled.split(" ")[0], type(want).__name__))
    # ---------------------------------------------------------------- tag table (exhaustive)
    if ctx.mine(0) or not ctx.quick:
        # (quoted payloads that LOOK like numbers / booleans / null are strings, with and without a tag)
        payload_scalar = ["plain", "'quoted str'", "a.b", "arn:aws:s3:::bucket/key", "'8080'", '"true"', "'null'", '"1.5"', "'~'"]
        # number / bool looking payloads: YAML gives a tagged scalar no implicit type, the long form `{Ref: 12}` does;
        # for these only the agreement of the two loaders on the SHORT form is asserted
        ambiguous_scalar = ["12", "true", "1.5"]
        for tag in sorted(SINGLE):
            for pl in ambiguous_scalar:
                short = "k: !%s %s\n" % (tag, pl)
                a = ctx.w.run({"k": "load", "which": "validate", "text": short})
                b = ctx.w.run({"k": "load", "which": "serde", "text": short})
                ctx.res.cases += 1
                va = strip_pos(json.loads(a["out"])) if a.get("r") == "ok" else "error"
                vb = strip_pos(json.loads(b["out"])) if b.get("r") == "ok" else "error"
                if va != vb:
                    ctx.violation("tag:ambiguous-scalar-payload:loaders-disagree", "`%s` is loaded as %s by validate and as %s by the test/library loader" % (short.strip(), va[-1], vb[-1]),
                                  {"kind": "tag2", "short": short})
        payload_seq = ["[a, b]", "['-', [x, y]]", "[1, two]", "[]", "[[]]", "[{}]"]
        for tag, long in TAGS.items():
            for kind, payloads in (("scalar", payload_scalar), ("sequence", payload_seq)):
                for pl in payloads:
                    for ctxname, tmpl_short, tmpl_long in (
                            ("map-value", "k: !%s %s\n", "k:\n  %s: %s\n"),
                            ("in-list", "k:\n  - !%s %s\n  - z\n", "k:\n  - {%s: %s}\n  - z\n"),
                            ("nested", "k: !Join\n  - ''\n  - - !%s %s\n    - z\n", "k:\n  'Fn::Join':\n  - ''\n  - - {%s: %s}\n    - z\n")):
                        if not ctx.mine(hash((tag, kind, pl, ctxname)) % 997):
                            pass
                        short = tmpl_short % (tag, pl)
                        longt = tmpl_long % (json.dumps(long), pl)
                        accepted = (tag in SINGLE) if kind == "scalar" else (tag in SEQ)
                        res = {}
                        for which in ("validate", "serde"):
                            a = ctx.w.run({"k": "load", "which": which, "text": short})
                            b = ctx.w.run({"k": "load", "which": which, "text": longt})
                            res[which] = (a, b)
                        ctx.res.cases += 1
                        case = {"kind": "tag", "short": short, "long": longt, "accepted": accepted}
                        ctx.res.extra.setdefault("tags_x_payload", set()).add("%s:%s" % (tag, kind))

                        def val(r):
                            if r.get("r") != "ok":
                                return ("error",)
                            return ("value", strip_pos(json.loads(r["out"])))
                        va, vb = val(res["validate"][0]), val(res["validate"][1])
                        sa, sb = val(res["serde"][0]), val(res["serde"][1])
                        if accepted:
                            if va != vb:
                                ctx.violation("tag:validate-loader:%s:%s:%s" % (kind, ctxname, "error" if va[0] == "error" else "differs"),
                                              "!%s %s (%s) is not equivalent to its long form in the validate loader" % (tag, pl, ctxname), case)
                            elif sa != sb:
                                ctx.violation("tag:serde-loader:%s:%s:%s" % (kind, ctxname, "error" if sa[0] == "error" else "differs"),
                                              "!%s %s (%s) is not equivalent to its long form in the test/library loader" % (tag, pl, ctxname), case)
                            else:
                                ctx.res.distinct.add(("tag", tag, kind, ctxname))
                        else:
                            # not accepted for this payload kind: untagged value or an error, the same in both loaders
                            if (va[0] == "error") != (sa[0] == "error"):
                                ctx.violation("tag:unaccepted-payload:loaders-disagree:%s" % kind, "!%s on a %s payload: validate loader %s, serde loader %s" % (tag, kind, va[0], sa[0]), case)
                            elif va[0] == "value" and va != sa:
                                ctx.violation("tag:unaccepted-payload:values-differ:%s" % kind, "!%s on a %s payload loads differently in the two loaders" % (tag, kind), case)
                            else:
                                ctx.res.distinct.add(("tag-unaccepted", tag, kind, va[0]))

    # ---------------------------------------------------------------- rejection
    if ctx.mine(1) or not ctx.quick:
        bad_docs = {
            "unclosed-flow": '{"a": [1, 2', "bad-indent": "a:\n  b: 1\n c: 2\n", "tab-indent": "a:\n\t- 1\n", "unterminated-quote": "a: 'xx\n",
            "stray-brace": "a: }\n", "colon-soup": "key: : :\n  - x: [\n",
            "int-key": "1: x\n", "float-key": "1.5: x\n", "bool-key": "true: x\n", "null-key": "null: x\n", "list-key": "? [a, b]\n: 1\n", "map-key": "? {a: 1}\n: 2\n",
            "nested-int-key": "a:\n  b:\n    7: x\n", "json-int-key-like": "{1: 2}\n",
            # a short-form tag in key position stands for a map ({Ref: x}): a non-string key like `? {Ref: x}`
            "tagged-ref-key": "a:\n  !Ref LogBucket: 1\n", "tagged-sub-key-flow": "{a: {!Sub \"${A}\": 1}}\n", "tagged-getatt-key": "? !GetAtt a.b\n: 1\n",
            "long-form-ref-key": "? {Ref: LogBucket}\n: 1\n", "tagged-int-key": "!!int 5: x\n",
        }
        for name, text in bad_docs.items():
            for fe in ("validate", "payload", "run_checks", "test", "load-validate", "load-serde"):
                ctx.res.cases += 1
                rtext = "rule r {\n    this exists\n}\n"
                if fe == "validate":
                    r = ctx.w.run({"k": "cli", "argv": ["validate", "-r", "{S}/r.guard", "-d", "{S}/d.yaml", "--structured", "-S", "none", "-o", "json"], "files": {"r.guard": rtext, "d.yaml": text}})
                elif fe == "payload":
                    r = ctx.w.run({"k": "cli", "argv": ["validate", "--payload", "--structured", "-S", "none", "-o", "json"], "stdin": json.dumps({"rules": [rtext], "data": [text]})})
                elif fe == "run_checks":
                    r = ctx.w.run({"k": "rc", "data": text, "rules": rtext, "verbose": False})
                elif fe == "test":
                    spec = "- name: c\n  input:\n" + "".join("    " + l + "\n" for l in text.rstrip("\n").split("\n")) + "  expectations:\n    rules:\n      r: PASS\n"
                    r = ctx.w.run({"k": "cli", "argv": ["test", "-r", "{S}/r.guard", "-t", "{S}/t.yaml", "-o", "json"], "files": {"r.guard": rtext, "t.yaml": spec}})
                    if r.get("r") == "ok" and r.get("code") not in (0,):
                        r = dict(r, r="err")
                    elif r.get("r") == "ok":
                        try:
                            d = json.loads(r["out"])
                            if "error" in d:
                                r = dict(r, r="err")
                        except ValueError:
                            pass
                else:
                    r = ctx.w.run({"k": "load", "which": fe.split("-")[1], "text": text})
                cls = "non-string-key" if "key" in name else "ill-formed"
                case = {"kind": "reject", "frontend": fe, "text": text, "name": name}
                ctx.res.extra.setdefault("rejection_classes", set()).add("%s:%s" % (cls, fe))
                if core.crash_signature(r):
                    ctx.inconclusive("crash (C08)")
                elif r.get("r") == "ok":
                    ctx.violation("not-rejected:%s:%s:%s" % (cls, fe, name), "%s text %r is loaded by %s instead of being rejected (output %s)" % (cls, text, fe, r.get("out", "")[:150]), case)
                else:
                    ctx.res.distinct.add(("rejected", cls, fe, name))


def strip_pos(nodes):
    out = []
    for n in nodes:
        v = n["value"]
        if n["type"] == "map":
            v = v["order"]
        out.append((n["path"], n["type"], json.dumps(v)))
    return out


def first_diff(got, model, path=""):
    if type(got) is not type(model):
        return ("type", "at %s loaded %s %r, model %s %r" % (path or "/", type(got).__name__, got, type(model).__name__, model))
    if isinstance(model, dict):
        if list(got.keys()) != list(model.keys()):
            return ("key-order" if sorted(got.keys()) == sorted(model.keys()) else "keys", "at %s keys %s vs %s" % (path or "/", list(got.keys()), list(model.keys())))
        for k in model:
            if not strict_eq(got[k], model[k]):
                return first_diff(got[k], model[k], path + "/" + k)
    if isinstance(model, list):
        if len(got) != len(model):
            return ("list-length", "at %s length %d vs %d" % (path, len(got), len(model)))
        for i, (a, b) in enumerate(zip(got, model)):
            if not strict_eq(a, b):
                return first_diff(a, b, "%s/%d" % (path, i))
    return ("value:" + type(model).__name__, "at %s loaded %r, model %r" % (path or "/", got, model))


def replay(case, w):
    k = case["kind"]
    if k == "load":
        r = w.run({"k": "load", "which": case["which"], "text": case["text"]})
        if r.get("r") != "ok":
            return False, "rejected"
        return strict_eq(from_dump(json.loads(r["out"])), case["model"]), "loaded value compared with the model"
    if k == "coretag":
        getter = {"k: %s\n": lambda d: d["k"], "k:\n  - %s\n  - x\n": lambda d: d["k"][0], "{k: {j: %s}}\n": lambda d: d["k"]["j"]}[case["where"]]
        for which in ("validate", "serde"):
            r = w.run({"k": "load", "which": which, "text": case["text"]})
            if r.get("r") != "ok" or not strict_eq(getter(from_dump(json.loads(r["out"]))), case["want"]):
                return False, "%s loader" % which
        return True, "both loaders give the tagged type"
    if k == "tag":
        def val(which, text):
            r = w.run({"k": "load", "which": which, "text": text})
            return ("error",) if r.get("r") != "ok" else ("value", strip_pos(json.loads(r["out"])))
        if case["accepted"]:
            return val("validate", case["short"]) == val("validate", case["long"]) and val("serde", case["short"]) == val("serde", case["long"]), "short vs long"
        a, b = val("validate", case["short"]), val("serde", case["short"])
        return a == b or (a[0] == b[0] == "error"), "loaders on an unaccepted tag payload"
    if k == "tag2":
        a = w.run({"k": "load", "which": "validate", "text": case["short"]})
        b = w.run({"k": "load", "which": "serde", "text": case["short"]})
        va = strip_pos(json.loads(a["out"])) if a.get("r") == "ok" else "error"
        vb = strip_pos(json.loads(b["out"])) if b.get("r") == "ok" else "error"
        return va == vb, "loaders on the short form"
    if k == "reject":
        fe = case["frontend"]
        if fe.startswith("load-"):
            r = w.run({"k": "load", "which": fe.split("-")[1], "text": case["text"]})
        elif fe == "run_checks":
            r = w.run({"k": "rc", "data": case["text"], "rules": "rule r {\n    this exists\n}\n", "verbose": False})
        else:
            r = w.run({"k": "cli", "argv": ["validate", "--payload", "--structured", "-S", "none", "-o", "json"],
                       "stdin": json.dumps({"rules": ["rule r {\n    this exists\n}\n"], "data": [case["text"]]})})
        return r.get("r") != "ok", "result %s" % r.get("r")
    r = w.run({"k": "rc", "data": case["text"], "rules": case["rules"], "verbose": False})
    if r.get("r") != "ok":
        return False, "error"
    st = obs.report_statuses(json.loads(r["out"]))
    return all(v == ["PASS"] for v in st.values()), str({k: v for k, v in st.items() if v != ["PASS"]})


def main(tier, seed):
    t0 = time.time()
    core.build()
    res = core.run_shards(shard, seed, tier, "C11")
    if tier == "thorough":
        # Miri shard: the unsafe libyaml loader interpreted on a batch of generated + hostile documents
        import random
        from .. import miri
        from . import c08
        rng = random.Random("c11-miri:%s" % seed)
        docs = list(c08.BAD_DOCS.values())
        for t in range(60):
            d = gen.gen_doc(rng, scalars=SCALARS)
            docs.append(rng.choice(list(ser.STYLES.values()))(d, rng)[0])
        for tag in list(TAGS)[:8]:
            docs.append("k: !%s x\nl:\n  - !%s [a, b]\n" % (tag, tag))
        docs = [d for d in docs if len(d) < 2500]
        mr = miri.run_miri(docs)
        res.extra["miri"] = {k: v for k, v in mr.items() if k != "reports"}
        res.extra["miri"]["reports"] = len(mr["reports"])
        for r in mr["reports"]:
            res.violations.append({"sig": "miri:%s:%s" % (r["kind"], r["frame"][:80]), "what": "Miri: %s at %s" % (r["first_line"], r["frame"]), "replay": {"kind": "miri"}})
    sp = res.extra.get("spelling_x_style", set())
    tg = res.extra.get("tags_x_payload", set())
    floor = {"cases": (res.cases, 2000), "spelling_x_style": (len(sp), 18), "tags_x_payload": (len(tg), 42), "frontends": (len(res.extra.get("frontends", set())), 4),
             "rejection_class_x_frontend": (len(res.extra.get("rejection_classes", set())), 12)}
    return core.finish("C11", tier, seed, res, t0,
                       rule="generated documents (unicode, digits-only, empty, keyword-looking strings, i64 bounds, extreme floats) x 4 serialisations with random "
                            "quoting/indent/comments x {validate, serde} loader probes (type-strict node-by-node comparison incl. key order) and x {validate, payload, "
                            "run_checks, test} verdict channels (document == its Guard literal, per-path type probes); all 21 tags x {scalar, sequence} x 3 nestings; "
                            "15 ill-formed / non-string-key texts x 6 front ends; distinct = (channel, loader/front end, serialisation)",
                       floor=floor, exhaustive=False,
                       assumptions=["spellings outside the property (plain True, ~, .inf, 0o7, 1_000 as plain scalars) are not generated as plain scalars: such strings are always quoted",
                                    "YAML aliases/anchors are not part of the property statement and are not asserted"])
