"""C02 - every composite status follows from its parts.

(A) exhaustive: all CNF shapes up to 3 lines x 3 alternatives whose leaves are forced to each of
    PASS/FAIL/SKIP, placed at every composition site (rule body, rule when, when-block condition and
    body, query block, type block, filter, file-level default rule). The rule status is compared with
    the status computed from the leaves by the property's formulas AND the emitted record tree is
    checked node by node (gvlib/rectree.py).
(B) random programs (type blocks, parameterised rules, nested when/blocks, variables) x documents:
    record tree checked generically; H1 hook stream checked for open/close discipline; root status
    == status in the non-verbose report == exit-code class of `validate --print-json`.
"""
import itertools
import json
import re
import time

from .. import core, gen, obs, rectree

DOC = {"a": 1, "l": [{"x": 1}, {"x": 2}], "m": {"k": 1},
       "Resources": {"b": {"Type": "AWS::S3::Bucket", "Properties": {"a": 1}}}}
DOCS = json.dumps(DOC)
PRELUDE = "let A = a\nlet L = l\n"
LEAF = {"P": "%A == 1", "F": "%A == 2", "S": "%L[ x == 99 ].x == 1"}
ST = {"P": "PASS", "F": "FAIL", "S": "SKIP"}


def line_status(alts):
    if "P" in alts:
        return "PASS"
    if "F" in alts:
        return "FAIL"
    return "SKIP"


def cnf_status(cnf):
    return rectree.conj([line_status(l) for l in cnf])


def cnf_text(cnf, indent, orw=" or "):
    pad = " " * indent
    return "\n".join(pad + orw.join(LEAF[a] for a in line) for line in cnf)


SITES = ["rule-body", "rule-when", "whenblock-cond", "whenblock-body", "query-block", "type-block", "filter", "some-block"]


def site_rule(site, name, cnf):
    """returns (rule text, expected rule status)"""
    s = cnf_status(cnf)
    if site == "rule-body":
        return "rule %s {\n%s\n}\n" % (name, cnf_text(cnf, 4)), s
    if site == "rule-when":
        return "rule %s when\n%s\n{\n    %%A == 1\n}\n" % (name, cnf_text(cnf, 4)), ("PASS" if s == "PASS" else "SKIP")
    if site == "whenblock-cond":
        return "rule %s {\n    when\n%s\n    {\n        %%A == 1\n    }\n}\n" % (name, cnf_text(cnf, 8)), ("PASS" if s == "PASS" else "SKIP")
    if site == "whenblock-body":
        return "rule %s {\n    when %%A == 1 {\n%s\n    }\n}\n" % (name, cnf_text(cnf, 8)), s
    if site == "query-block":
        return "rule %s {\n    m {\n%s\n    }\n}\n" % (name, cnf_text(cnf, 8)), s
    if site == "some-block":
        # two values, same body outcome for both -> `some` aggregation equals the body outcome
        return "rule %s {\n    some l[*] {\n%s\n    }\n}\n" % (name, cnf_text(cnf, 8)), s
    if site == "type-block":
        return "rule %s {\n    AWS::S3::Bucket {\n%s\n    }\n}\n" % (name, cnf_text(cnf, 8)), s
    if site == "filter":
        return "rule %s {\n    l[\n%s\n    ] !empty\n}\n" % (name, cnf_text(cnf, 8)), ("PASS" if s == "PASS" else "FAIL")
    raise ValueError(site)


def all_shapes(max_lines=3, max_alts=3):
    for n in range(1, max_lines + 1):
        for shape in itertools.product(range(1, max_alts + 1), repeat=n):
            yield shape


def assignments(shape):
    total = sum(shape)
    for combo in itertools.product("PFS", repeat=total):
        cnf, i = [], 0
        for k in shape:
            cnf.append(combo[i:i + k])
            i += k
        yield cnf


def check_tree(ctx, tree, source, k_hint=None):
    tc = rectree.TreeChecker(source, k_hint)
    tc.check(tree)
    for k, n in tc.kinds.items():
        ctx.res.extra.setdefault("container_kinds", core.Counter())[k] += n
    for c in tc.combos:
        ctx.res.distinct.add(c)
    return tc


def run_batch(ctx, batch, orw=" or "):
    """batch: list of (site, cnf)"""
    rules, exp = [], {}
    for i, (site, cnf) in enumerate(batch):
        name = "r%d" % i
        txt, e = site_rule(site, name, cnf)
        rules.append(txt)
        exp[name] = (e, site, cnf)
    text = PRELUDE + "".join(rules)
    res = ctx.w.run({"k": "rc", "data": DOCS, "rules": text, "verbose": True, "events": True})
    if res.get("r") != "ok":
        sig = core.crash_signature(res)
        if sig:
            ctx.inconclusive("crash:" + sig)
        else:
            ctx.violation("exhaustive:evaluation-error", "gadget file failed: %s" % res.get("err", "")[:300],
                          {"kind": "gadget", "rules": text, "data": DOCS, "expected": {k: v[0] for k, v in exp.items()}})
        return
    tree = json.loads(res["out"])
    tc = check_tree(ctx, tree, text)
    evp, evs = rectree.check_events(res.get("events", []))
    ctx.res.counts["hook_record_opens"] += evs["opens"]
    for sig, msg in evp:
        ctx.violation("hook:" + sig, msg, {"kind": "gadget", "rules": text, "data": DOCS, "expected": {k: v[0] for k, v in exp.items()}})
    if evs["extract"] != (0, True) or evs["opens"] != evs["closes"]:
        ctx.violation("hook:extract", "at extract: open stack/final = %s opens=%d closes=%d" % (evs["extract"], evs["opens"], evs["closes"]),
                      {"kind": "gadget", "rules": text, "data": DOCS, "expected": {k: v[0] for k, v in exp.items()}})
    got = dict(obs.tree_rule_statuses(tree))
    expd = {k: v[0] for k, v in exp.items()}
    for sig, msg in tc.problems:
        ctx.violation("tree:" + sig, msg + "\n" + text[:1500], {"kind": "gadget", "rules": text, "data": DOCS, "expected": expd})
    for name, (e, site, cnf) in exp.items():
        ctx.res.cases += 1
        ctx.res.extra.setdefault("site_status", set()).add("%s:%s" % (site, e))
        if got.get(name) != e:
            ctx.violation("formula:%s" % site, "site %s cnf=%s rule status %s, formula says %s" % (site, ["".join(l) for l in cnf], got.get(name), e),
                          {"kind": "gadget", "rules": PRELUDE + site_rule(site, "r0", cnf)[0], "data": DOCS, "expected": {"r0": e}})
        elif len(ctx.res.samples) < 2:
            ctx.sample({"site": site, "cnf(leaf statuses)": ["".join(l) for l in cnf], "rule_status": got.get(name)})


def shard(ctx):
    # ---------------- (A) exhaustive gadget enumeration
    rng = ctx.rng("A")
    batch = []
    idx = 0
    for site in SITES:
        for shape in all_shapes():
            small = len(shape) <= 2
            for cnf in assignments(shape):
                idx += 1
                if not ctx.mine(idx):
                    continue
                if ctx.quick and not small and rng.random() > 0.04:
                    continue
                batch.append((site, cnf))
                if len(batch) >= 30:
                    run_batch(ctx, batch)
                    batch = []
    if batch:
        run_batch(ctx, batch)
    # file-level default rule: one CNF per file
    shapes = list(all_shapes(2, 2)) if ctx.quick else list(all_shapes(3, 2))
    for shape in shapes:
        for cnf in assignments(shape):
            idx += 1
            if not ctx.mine(idx):
                continue
            text = PRELUDE + cnf_text(cnf, 0) + "\n"
            res = ctx.w.run({"k": "rc", "data": DOCS, "rules": text, "verbose": True})
            ctx.res.cases += 1
            if res.get("r") != "ok":
                ctx.violation("exhaustive:evaluation-error", "default-rule gadget failed: %s" % res.get("err", "")[:200],
                              {"kind": "default", "rules": text, "data": DOCS, "expected": cnf_status(cnf)})
                continue
            tree = json.loads(res["out"])
            tc = check_tree(ctx, tree, text)
            for sig, msg in tc.problems:
                ctx.violation("tree:" + sig, msg, {"kind": "default", "rules": text, "data": DOCS, "expected": cnf_status(cnf)})
            got = obs.tree_rule_statuses(tree)
            e = cnf_status(cnf)
            ctx.res.extra.setdefault("site_status", set()).add("default:%s" % e)
            if len(got) != 1 or got[0][1] != e or obs.node_status(tree) != e:
                ctx.violation("formula:default-rule", "file-level cnf=%s gives %s file=%s, formula says %s" % (
                    ["".join(l) for l in cnf], got, obs.node_status(tree), e),
                    {"kind": "default", "rules": text, "data": DOCS, "expected": e})

    # ---------------- (A2) references to a rule name with 1..3 definitions: every status assignment x 4 reference forms x user before/after
    for k in (1, 2, 3):
        for combo in itertools.product("PFS", repeat=k):
            for users_first in (False, True):
                idx += 1
                if not ctx.mine(idx):
                    continue
                eff = next((ST[c] for c in combo if c != "S"), "SKIP")
                defs = "".join("rule tgt {\n    %s\n}\n" % LEAF[c] for c in combo)
                users = ("rule u_c {\n    tgt\n}\nrule u_n {\n    not tgt\n}\nrule u_w when tgt {\n    %A == 1\n}\n"
                         "rule u_wn when !tgt {\n    %A == 1\n}\nrule u_or {\n    tgt or %A == 2\n}\n")
                text = PRELUDE + (users + defs if users_first else defs + users)
                want = {"u_c": "PASS" if eff == "PASS" else "FAIL", "u_n": "FAIL" if eff == "PASS" else "PASS",
                        "u_w": "PASS" if eff == "PASS" else "SKIP", "u_wn": "SKIP" if eff == "PASS" else "PASS",
                        "u_or": "PASS" if eff == "PASS" else "FAIL"}
                case = {"kind": "gadget", "rules": text, "data": DOCS, "expected": want}
                res = ctx.w.run({"k": "rc", "data": DOCS, "rules": text, "verbose": True})
                ctx.res.cases += 1
                if res.get("r") != "ok":
                    if core.crash_signature(res):
                        ctx.inconclusive("crash")
                    else:
                        ctx.violation("named-ref:evaluation-error", "reference gadget failed: %s" % res.get("err", "")[:200], case)
                    continue
                tree = json.loads(res["out"])
                tc = check_tree(ctx, tree, text)
                for sig, msg in tc.problems:
                    ctx.violation("tree:" + sig, msg + "\n" + text, case)
                got = {}
                for nme, st_ in obs.tree_rule_statuses(tree):
                    got.setdefault(nme, []).append(st_)
                ctx.res.counts["named_reference_gadgets"] += 1
                ctx.res.distinct.add(("named-ref-gadget", combo, users_first))
                if got.get("tgt") != [ST[c] for c in combo]:
                    ctx.violation("named-ref:definitions", "definitions of tgt forced to %s are reported %s" % ([ST[c] for c in combo], got.get("tgt")), case)
                    continue
                bad = sorted(u for u in want if got.get(u) != [want[u]])
                if bad and {"P", "F"} <= set(combo):
                    # definitions that disagree (PASS and FAIL): the statement does not say which one "the rule" is; any ONE of them, used consistently, is accepted
                    other = {u: {"PASS": "FAIL", "FAIL": "PASS"}.get(w, w) if u in ("u_c", "u_n", "u_or") else {"PASS": "SKIP", "SKIP": "PASS"}[w] for u, w in want.items()}
                    if all(got.get(u) == [other[u]] for u in other):
                        ctx.res.counts["named_reference_later_definition_decides"] += 1
                        bad = []
                if bad:
                    ctx.violation("named-ref:%s:%s" % (bad[0], "user-first" if users_first else "user-last"),
                                  "definitions of tgt are %s (the first that is not SKIP decides: %s) but %s is %s, expected %s" % (
                                      [ST[c] for c in combo], eff, bad[0], got.get(bad[0]), want[bad[0]]), case)

    # ---------------- (A3) calls of a parameterised rule whose body is forced to PASS / FAIL / SKIP x 5 call forms x caller before/after
    for c_ in "PFS":
        for users_first in (False, True):
            idx += 1
            if not ctx.mine(idx):
                continue
            eff = ST[c_]
            defs = "rule ptgt(v) {\n    %s\n}\n" % LEAF[c_]
            users = ("rule u_c {\n    ptgt(a)\n}\nrule u_n {\n    not ptgt(a)\n}\nrule u_w when ptgt(a) {\n    %A == 1\n}\n"
                     "rule u_wn when !ptgt(a) {\n    %A == 1\n}\nrule u_or {\n    ptgt(a) or %A == 2\n}\nrule u_nor {\n    not ptgt(a) or %A == 2\n}\n")
            text = PRELUDE + (users + defs if users_first else defs + users)
            want = {"u_c": "PASS" if eff == "PASS" else "FAIL", "u_n": "FAIL" if eff == "PASS" else "PASS",
                    "u_w": "PASS" if eff == "PASS" else "SKIP", "u_wn": "SKIP" if eff == "PASS" else "PASS",
                    "u_or": "PASS" if eff == "PASS" else "FAIL", "u_nor": "FAIL" if eff == "PASS" else "PASS"}
            case = {"kind": "gadget", "rules": text, "data": DOCS, "expected": want}
            res = ctx.w.run({"k": "rc", "data": DOCS, "rules": text, "verbose": True})
            ctx.res.cases += 1
            if res.get("r") != "ok":
                if core.crash_signature(res):
                    ctx.inconclusive("crash")
                else:
                    ctx.violation("call:evaluation-error", "call gadget failed: %s" % res.get("err", "")[:200], case)
                continue
            tree = json.loads(res["out"])
            tc = check_tree(ctx, tree, text)
            for sig, msg in tc.problems:
                ctx.violation("tree:" + sig, msg + "\n" + text, case)
            got = dict(obs.tree_rule_statuses(tree))
            ctx.res.counts["parameterised_call_gadgets"] += 1
            ctx.res.distinct.add(("call-gadget", c_, users_first))
            bad = sorted(u for u in want if got.get(u) != want[u])
            if "u_c" in bad and eff == "SKIP" and got.get("u_c") == "SKIP":
                # a call is also "the body with the parameters replaced" (C15): a SKIP body makes the calling clause SKIP, which the
                # statement's "FAIL otherwise" (written for clauses that NAME a rule) does not clearly exclude - accepted
                ctx.res.counts["call_of_skipping_rule_is_skip"] += 1
                bad.remove("u_c")
            if bad:
                ctx.violation("call:%s:callee-%s" % (bad[0], eff), "the called parameterised rule is %s but %s is %s, expected %s" % (eff, bad[0], got.get(bad[0]), want[bad[0]]), case)

    # ---------------- (A4) blocks over TWO values whose bodies are forced to different statuses (PASS+SKIP, SKIP+FAIL, ...): type block,
    #                  its filter desugaring, a query block over list elements
    doc4 = {"a": 1, "l": [{"x": 1}, {"x": 2}], "Resources": {"r1": {"Type": "AWS::S3::Bucket", "Properties": {"a": 1}},
                                                           "r2": {"Type": "AWS::S3::Bucket", "Properties": {"a": 2}},
                                                           "r3": {"Type": "AWS::SNS::Topic", "Properties": {"a": 1}}}}
    docs4 = json.dumps(doc4)
    for cx, cy in itertools.product("PFS", repeat=2):
        idx += 1
        if not ctx.mine(idx):
            continue
        eff = "FAIL" if "F" in (cx, cy) else ("PASS" if "P" in (cx, cy) else "SKIP")
        tb = "        when Properties.a == 1 {\n            %s\n        }\n        when Properties.a == 2 {\n            %s\n        }\n" % (LEAF[cx], LEAF[cy])
        lb = "        when x == 1 {\n            %s\n        }\n        when x == 2 {\n            %s\n        }\n" % (LEAF[cx], LEAF[cy])
        text = (PRELUDE + "rule t_type {\n    AWS::S3::Bucket {\n" + tb + "    }\n}\n"
                "rule t_filter {\n    Resources.*[ Type == 'AWS::S3::Bucket' ] {\n" + tb + "    }\n}\n"
                "rule t_list {\n    l[*] {\n" + lb + "    }\n}\n")
        want = {"t_type": eff, "t_filter": eff, "t_list": eff}
        case = {"kind": "gadget", "rules": text, "data": docs4, "expected": want}
        res = ctx.w.run({"k": "rc", "data": docs4, "rules": text, "verbose": True})
        ctx.res.cases += 1
        if res.get("r") != "ok":
            if core.crash_signature(res):
                ctx.inconclusive("crash")
            else:
                ctx.violation("mixed-block:evaluation-error", "gadget failed: %s" % res.get("err", "")[:200], case)
            continue
        tree = json.loads(res["out"])
        tc = check_tree(ctx, tree, text)
        for sig, msg in tc.problems:
            ctx.violation("tree:" + sig, msg + "\n" + text, case)
        got = dict(obs.tree_rule_statuses(tree))
        ctx.res.counts["mixed_block_gadgets"] += 1
        ctx.res.distinct.add(("mixed-block", cx, cy))
        bad = sorted(u for u in want if got.get(u) != want[u])
        if bad:
            ctx.violation("mixed-block:%s:%s+%s" % (bad[0], ST[cx], ST[cy]), "a block over two values whose bodies are %s and %s makes %s %s, expected %s" % (
                ST[cx], ST[cy], bad[0], got.get(bad[0]), eff), case)

    # ---------------- (B) random programs
    n = 250 if ctx.quick else 12000
    rng = ctx.rng("B")
    o = gen.Opts(types=True, calls=True, msgs=True, interp=True)
    for t in range(n):
        doc = gen.gen_doc(rng)
        f = gen.gen_file(rng, doc, o)
        text = gen.pfile(f)
        docs = json.dumps(doc)
        res = ctx.w.run({"k": "rc", "data": docs, "rules": text, "verbose": True, "events": True})
        ctx.res.cases += 1
        case = {"kind": "random", "rules": text, "data": docs}
        if res.get("r") != "ok":
            sig = core.crash_signature(res)
            ctx.inconclusive("crash" if sig else "evaluation-error")
            if not sig:
                evp, evs = rectree.check_events(res.get("events", []))
                ctx.res.counts["error_paths_balanced" if evs["final_depth"] == 0 else "error_paths_unbalanced"] += 1
            continue
        tree = json.loads(res["out"])
        tc = check_tree(ctx, tree, text)
        for sig, msg in tc.problems:
            ctx.violation("tree:" + sig, msg + "\n" + text[:1200], case)
        evp, evs = rectree.check_events(res.get("events", []))
        ctx.res.counts["hook_record_opens"] += evs["opens"]
        for sig, msg in evp:
            ctx.violation("hook:" + sig, msg, case)
        if evs["extract"] != (0, True) or evs["opens"] != evs["closes"]:
            ctx.violation("hook:extract", "at extract: %s opens=%d closes=%d" % (evs["extract"], evs["opens"], evs["closes"]), case)
        # root status == returned status (non-verbose report) == exit-code class of validate -p
        if t % 4 == 0:
            r2 = ctx.w.run({"k": "rc", "data": docs, "rules": text, "verbose": False})
            k2, st2, fs2 = obs.rc_statuses(r2)
            root = obs.node_status(tree)
            if k2 == "ok":
                ctx.res.counts["root_vs_report"] += 1
                if fs2 != root:
                    ctx.violation("root-vs-report", "record root %s but report status %s" % (root, fs2), case)
                tl = {}
                for nme, s in obs.tree_rule_statuses(tree):
                    tl.setdefault(nme, []).append(s)
                tl = {k: "+".join(sorted(v)) for k, v in tl.items()}
                st2n = {k: "+".join(sorted(v.split("+"))) for k, v in st2.items()}
                if tl != st2n:
                    ctx.violation("tree-vs-report-rules", "rule statuses differ: tree %s report %s" % (tl, st2n), case)
            elif core.crash_signature(r2):
                ctx.inconclusive("crash-in-reporter")
            r3 = ctx.w.run({"k": "cli", "argv": ["validate", "-r", "{S}/r.guard", "-d", "{S}/d.json", "-p", "-S", "none"],
                            "files": {"r.guard": text, "d.json": docs}})
            if r3.get("r") == "ok":
                out = r3["out"]
                lines = out.split("\n")
                try:
                    a = lines.index("{")
                    b = len(lines) - 1 - lines[::-1].index("}")
                    t3 = json.loads("\n".join(lines[a:b + 1]))
                except ValueError:
                    t3 = None
                ctx.res.counts["root_vs_exit"] += 1
                if t3 is None:
                    ctx.violation("print-json-unparsable", "validate -p output has no JSON record", case)
                else:
                    r3s = obs.node_status(t3)
                    want = 19 if r3s == "FAIL" else 0
                    if r3["code"] != want or r3s != root:
                        ctx.violation("root-vs-exit", "validate -p: root %s (library root %s) exit %s" % (r3s, root, r3["code"]), case)
            elif core.crash_signature(r3):
                ctx.inconclusive("crash-in-cli")
            # a payload with two rules entries (the generated one and one that always passes), in both orders: one record per entry, exit 19 iff
            # some root is FAIL
            for order_ in (0, 1):
                entries = [text, "rule zz_always_pass {\n    this exists\n}\n"]
                if order_:
                    entries.reverse()
                rp_ = ctx.w.run({"k": "cli", "argv": ["validate", "--payload", "-p", "-S", "none"], "stdin": json.dumps({"rules": entries, "data": [docs]})})
                if rp_.get("r") == "ok":
                    proots = re.findall(r'"FileCheck":\s*\{[^}]*?"status":\s*"(\w+)"', rp_.get("out", ""))
                    ctx.res.counts["payload_roots_vs_exit"] += 1
                    if len(proots) == 2:
                        wantp = 19 if "FAIL" in proots else 0
                        ctx.res.distinct.add(("payload-roots", tuple(proots), rp_["code"]))
                        if rp_["code"] != wantp:
                            ctx.violation("roots-vs-exit:payload-several-rules-entries", "validate --payload -p with two rules entries: root statuses %s but exit %s" % (proots, rp_["code"]),
                                          {"kind": "payload", "rules": entries, "data": docs})
                elif core.crash_signature(rp_):
                    ctx.inconclusive("crash-in-cli")
            # several data files in one run: one record tree per file, the exit code follows from ALL root statuses (19 iff some root is FAIL)
            if t % 3 == 0:
                others = [json.dumps(gen.gen_doc(rng)), json.dumps({"zz_unrelated": 1})]
                fl4 = {"r.guard": text, "data/d1.json": docs, "data/d2.json": others[0], "data/d3.json": others[1]}
                r4 = ctx.w.run({"k": "cli", "argv": ["validate", "-r", "{S}/r.guard", "-d", "{S}/data", "-p", "-S", "none"], "files": fl4})
                if r4.get("r") == "ok":
                    roots = []
                    dec = json.JSONDecoder()
                    txt, pos_ = r4["out"], 0
                    while True:
                        a_ = txt.find("{", pos_)
                        if a_ < 0:
                            break
                        try:
                            obj, end_ = dec.raw_decode(txt, a_)
                        except ValueError:
                            pos_ = a_ + 1
                            continue
                        pos_ = end_
                        if isinstance(obj, dict) and "container" in obj:
                            roots.append(obs.node_status(obj))
                            # every record of the run is explained by its own children, whatever was evaluated before it
                            tcm = check_tree(ctx, obj, text)
                            for sig, msg in tcm.problems:
                                ctx.violation("tree:several-data-files:" + sig, "record #%d of a run over 3 data files: %s" % (len(roots), msg), {"kind": "multi", "rules": text, "files": fl4})
                    ctx.res.counts["multi_data_roots_vs_exit"] += 1
                    if len(roots) == 3:
                        # ... and has the status the same data file gets when it is evaluated alone
                        alone = [root]
                        for dx in others:
                            ra = ctx.w.run({"k": "rc", "data": dx, "rules": text, "verbose": True})
                            alone.append(obs.node_status(json.loads(ra["out"])) if ra.get("r") == "ok" else None)
                        if None not in alone and roots != alone:
                            ctx.violation("roots-vs-stand-alone:several-data-files", "validate -p on 3 data files: root statuses %s, the same files one by one %s" % (roots, alone),
                                          {"kind": "multi", "rules": text, "files": fl4, "alone": alone})
                        want4 = 19 if "FAIL" in roots else 0
                        ctx.res.distinct.add(("multi-root", tuple(roots), r4["code"]))
                        if r4["code"] != want4:
                            ctx.violation("roots-vs-exit:several-data-files", "validate -p on 3 data files: root statuses %s but exit %s" % (roots, r4["code"]),
                                          {"kind": "multi", "rules": text, "files": fl4})


def replay(case, w):
    if case["kind"] == "payload":
        rp_ = w.run({"k": "cli", "argv": ["validate", "--payload", "-p", "-S", "none"], "stdin": json.dumps({"rules": case["rules"], "data": [case["data"]]})})
        proots = re.findall(r'"FileCheck":\s*\{[^}]*?"status":\s*"(\w+)"', rp_.get("out", ""))
        return rp_.get("code") == (19 if "FAIL" in proots else 0), "roots %s exit %s" % (proots, rp_.get("code"))
    if case["kind"] == "multi":
        r4 = w.run({"k": "cli", "argv": ["validate", "-r", "{S}/r.guard", "-d", "{S}/data", "-p", "-S", "none"], "files": case["files"]})
        roots = re.findall(r'"FileCheck":\s*\{[^}]*?"status":\s*"(\w+)"', r4.get("out", ""))
        if case.get("alone") and roots != case["alone"]:
            return False, "roots %s, stand-alone %s" % (roots, case["alone"])
        return r4.get("code") == (19 if "FAIL" in roots else 0), "roots %s exit %s" % (roots, r4.get("code"))
    if case["kind"] in ("gadget", "default"):
        res = w.run({"k": "rc", "data": case["data"], "rules": case["rules"], "verbose": True})
        if res.get("r") != "ok":
            return False, "evaluation failed " + res.get("err", "")[:200]
        tree = json.loads(res["out"])
        tc = rectree.TreeChecker(case["rules"])
        tc.check(tree)
        got = dict(obs.tree_rule_statuses(tree))
        exp = case["expected"]
        if isinstance(exp, str):
            ok = [s for _, s in obs.tree_rule_statuses(tree)] == [exp]
        else:
            ok = all(got.get(k) == v for k, v in exp.items())
        return ok and not tc.problems, "statuses %s expected %s problems %s" % (got, exp, tc.problems[:3])
    res = w.run({"k": "rc", "data": case["data"], "rules": case["rules"], "verbose": True, "events": True})
    if res.get("r") != "ok":
        return True, "evaluation error (exempt)"
    tree = json.loads(res["out"])
    tc = rectree.TreeChecker(case["rules"])
    tc.check(tree)
    evp, evs = rectree.check_events(res.get("events", []))
    return not tc.problems and not evp, "problems %s %s" % (tc.problems[:3], evp[:3])


def main(tier, seed):
    t0 = time.time()
    core.build()
    res = core.run_shards(shard, seed, tier, "C02")
    kinds = res.extra.get("container_kinds", {})
    need = ["FileCheck", "RuleCheck", "RuleCondition", "TypeCheck", "TypeBlock", "Filter", "WhenCheck", "WhenCondition",
            "Disjunction", "BlockGuardCheck", "GuardClauseBlockCheck", "ClauseValueCheck"]
    seen_kinds = sum(1 for k in need if kinds.get(k, 0) >= 100)
    ss = res.extra.get("site_status", set())
    floor = {"container_kinds_seen_100x": (seen_kinds, len(need)),
             "site_x_status": (len(ss), 24),   # rule-when / whenblock-cond / filter sites can only yield two statuses each
             "cases": (res.cases, 5000), "hook_record_opens": (res.counts["hook_record_opens"], 10000)}
    return core.finish("C02", tier, seed, res, t0,
                       rule="(A) all CNF shapes <=3x3 with leaves forced to PASS/FAIL/SKIP at 9 composition sites (quick: all shapes <=2 lines, 4% sample "
                            "of the rest), status vs formula and record tree vs children; (B) random programs: generic record-tree check, hook "
                            "open/close discipline, root status vs report vs exit code. distinct = (node kind, multiset of child statuses, status) classes",
                       floor=floor, exhaustive=(tier == "thorough"),
                       assumptions=["Filter records are transparent for their parent's aggregation",
                                    "for `some` blocks the per-value grouping of records is inferred (any consistent grouping is accepted)",
                                    "error-terminated evaluations are exempt from the aggregation rules"])
