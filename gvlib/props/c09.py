"""C09 - the structured report partitions the rules exactly as they were evaluated.

For one evaluation the verbose record tree (ground truth: the RuleCheck records, in order) is compared
with the structured report (library non-verbose output and `validate --structured -o json`):
partition of rule names, file-status rule, union over several rules files, and attribution of every
reported leaf check (by its unique custom message) to a FAIL value check in the same rule's subtree.
"""
import json
import time

from .. import core, gen, obs


def number_messages(f, prefix):
    """give every clause / reference / call a unique custom message"""
    n = [0]

    def visit(cnf):
        for line in cnf:
            for alt in line:
                if alt["t"] in ("clause", "ref", "call"):
                    alt["msg"] = "%s%d" % (prefix, n[0])
                    n[0] += 1
    info = {}
    for kind, cnf in gen.iter_cnfs(f):
        if kind != "filter":
            visit(cnf)
            for line in cnf:
                for alt in line:
                    if alt["t"] == "clause" and alt.get("msg") and alt.get("rhs") is None:
                        q_ = alt["q"]
                        special = (len(q_) == 1 and q_[0][0] == "var") or q_[-1][0] in ("filter", "keysfilter")
                        info[alt["msg"]] = [alt["op"], bool(alt.get("neg")) != bool(alt.get("opneg")), special, bool(alt.get("some"))]
            # every 4th call stays without a message: a record of a call must then carry none (not a neighbouring call's)
            for line in cnf:
                for alt in line:
                    if alt["t"] == "call" and int(alt["msg"].rsplit("_", 1)[1]) % 4 == 3:
                        alt["msg"] = None
        else:
            for line in cnf:
                for alt in line:
                    if alt["t"] == "clause":
                        alt["msg"] = None
    return info


def leaf_checks(entry, out, depth=0):
    """flatten a not_compliant entry into leaves (kind, custom_message, from_path)"""
    (k, v), = entry.items()
    if k == "Rule":
        for c in v.get("checks", []):
            leaf_checks(c, out, depth + 1)
    elif k == "Disjunctions":
        for c in v.get("checks", []):
            leaf_checks(c, out, depth + 1)
    elif k == "Block":
        out.append(("block", (v.get("messages") or {}).get("custom_message"), None))
    elif k == "Clause":
        (ck, cv), = v.items()
        msg = (cv.get("messages") or {}).get("custom_message")
        chk = cv.get("check") or {}
        path = None
        if isinstance(chk, dict):
            for form in ("Resolved", "InResolved", "UnResolved"):
                if form in chk:
                    inner = chk[form]
                    src = inner.get("from") or inner.get("value")
                    if isinstance(src, dict):
                        if "path" in src:
                            path = src["path"]
                        elif "traversed_to" in src:
                            path = "~" + src["traversed_to"].get("path", "")
        out.append((ck.lower(), msg, path))
    else:
        out.append((k, None, None))


def _scalar(v):
    return v is None or isinstance(v, (bool, int, float, str))


def _same(a, b):
    return type(a) is type(b) and a == b


def evidence(entry, out):
    """every listed comparison with its own evidence: does the comparison the report prints (operator, negated, from value, to value(s)) really
    fail on the values it prints?  out gets (verdict, description); verdict None = not judged (collections, literals that may be patterns)"""
    (k, v), = entry.items()
    if k in ("Rule", "Disjunctions"):
        for c in v.get("checks", []):
            evidence(c, out)
        return
    if k != "Clause":
        return
    (ck, cv), = v.items()
    chk = cv.get("check") or {}
    if not isinstance(chk, dict):
        return
    try:
        if "InResolved" in chk:
            chk["InResolved"]["from"]["value"], chk["InResolved"]["to"], chk["InResolved"]["comparison"]
        if "Resolved" in chk:
            chk["Resolved"]["from"]["value"], chk["Resolved"]["to"]["value"], chk["Resolved"]["comparison"]
    except (KeyError, TypeError):
        out.append((None, "")); return              # another shape of the same record (e.g. a unary check)
    if "InResolved" in chk:
        x = chk["InResolved"]
        frm, tos, (op, negated) = x["from"]["value"], x["to"], x["comparison"]
        if op != "In" or not _scalar(frm) or not tos:
            out.append((None, "")); return          # `q1 == q2` / `q1 != q2` list differences in both directions, one entry per value: not judged
        if x["from"].get("path") in [t_.get("path") for t_ in tos if t_.get("path")]:
            # `q1 == q2` also lists the right-hand values that no left-hand value equals, printed as from = to = that value: the roles of
            # from/to in query-to-query comparisons are not part of the statement (see C10)
            out.append((None, "")); return
        members = []
        for t_ in tos:
            tv = t_["value"]
            for m in (tv if isinstance(tv, list) else [tv]):
                members.append((m, t_.get("path", "")))
        if not all(_scalar(m) for m, _p in members) or (isinstance(frm, str) and any(p_ == "" for _m, p_ in members)):
            out.append((None, "")); return          # collections; string literals may be patterns
        if not all(type(m) is type(frm) for m, _p in members):
            out.append((None, "")); return          # values of another type are not comparable: `!=` fails on them too (C13)
        holds = any(_same(frm, m) for m, _p in members)
        out.append((holds == negated, "%s%s: %r against %r" % ("not " if negated else "", op, frm, [m for m, _p in members])))
    elif "Resolved" in chk:
        x = chk["Resolved"]
        frm, to, (op, negated) = x["from"]["value"], x["to"]["value"], x["comparison"]
        if not _scalar(frm) or not _scalar(to) or type(frm) is not type(to) or isinstance(frm, bool) or frm is None:
            out.append((None, "")); return
        if isinstance(frm, str) and x["to"].get("path", "") == "":
            out.append((None, "")); return
        fn = {"Eq": lambda a, b: a == b, "Gt": lambda a, b: a > b, "Ge": lambda a, b: a >= b, "Lt": lambda a, b: a < b, "Le": lambda a, b: a <= b}.get(op)
        if fn is None:
            out.append((None, "")); return
        out.append((fn(frm, to) == negated, "%s%s: %r against %r" % ("not " if negated else "", op, frm, to)))


def source_call_messages(text):
    """{called rule name: set of custom messages (None = no message)} for every parameterised call in the rules text"""
    import re
    out = {}
    for m in re.finditer(r"(?<![\w%.])(\w+)\(", text):
        if re.search(r"\brule\s+$", text[:m.start()]):
            continue
        i, depth, q = m.end(), 1, None
        while i < len(text) and depth:
            ch = text[i]
            if q:
                if ch == "\\":
                    i += 1
                elif ch == q:
                    q = None
            elif ch in "\"'":
                q = ch
            elif ch == "(":
                depth += 1
            elif ch == ")":
                depth -= 1
            i += 1
        mm = re.match(r"[ \t]*<<(.*?)>>", text[i:], re.S)
        out.setdefault(m.group(1), set()).add(mm.group(1).strip() if mm else None)
    return out


def call_records(node, acc, top=True):
    """(name, message) of every nested RuleCheck record (= parameterised call or lazily evaluated reference)"""
    k, v = obs.container_kind(node)
    if k == "RuleCheck" and not top:
        acc.append((v["name"], v.get("message")))
    for c in node.get("children", []):
        call_records(c, acc, top=(k == "FileCheck"))


def nested_report_rules(entry, acc, depth=0):
    (k, v), = entry.items()
    if k == "Rule":
        if depth:
            acc.append((v["name"], (v.get("messages") or {}).get("custom_message")))
        for c in v.get("checks", []):
            nested_report_rules(c, acc, depth + 1)
    elif k == "Disjunctions":
        for c in v.get("checks", []):
            nested_report_rules(c, acc, depth + 1)


def tree_fail_messages(node, acc, under_filter=False):
    k, v = obs.container_kind(node)
    if k == "Filter":
        return
    if k in ("Disjunction",) and obs.node_status(node) in ("PASS", "SKIP"):
        # an `or` line that passed (through a later alternative) is no failed check, whatever failed alternatives lie below it
        return
    if k == "ClauseValueCheck" and isinstance(v, dict):
        (ck, cv), = v.items()
        msg = None
        status = None
        if ck in ("Comparison", "InComparison", "DependentRule", "MissingBlockValue"):
            msg, status = cv.get("custom_message"), cv.get("status")
        elif ck == "Unary":
            msg, status = cv["value"].get("custom_message"), cv["value"].get("status")
        elif ck == "NoValueForEmptyCheck":
            msg, status = cv, "FAIL"
        if status == "FAIL":
            acc.append(msg)
    if k == "BlockGuardCheck" and isinstance(v, dict) and v.get("status") == "FAIL":
        # a `!empty` annotated block over an empty selection FAILs without any value record; the report shows it as a Block leaf
        if not [c for c in node.get("children", []) if obs.container_kind(c)[0] != "Filter"]:
            acc.append(None)
    for c in node.get("children", []):
        tree_fail_messages(c, acc)


def check_report(ctx, tree, report, case, label):
    """partition + file status + leaf attribution; returns False on violation"""
    rules = obs.tree_rule_statuses(tree)
    names = [n for n, _ in rules]
    if len(set(names)) != len(names):
        ctx.inconclusive("duplicate-rule-names")
        return True
    comp, na = list(report.get("compliant", [])), list(report.get("not_applicable", []))
    nc = [e["Rule"]["name"] for e in report.get("not_compliant", []) if "Rule" in e]
    ok = True
    for n, s in rules:
        where = [lab for lab, lst in (("compliant", comp), ("not_applicable", na), ("not_compliant", nc)) if n in lst]
        want = {"PASS": "compliant", "SKIP": "not_applicable", "FAIL": "not_compliant"}[s]
        ctx.res.distinct.add((label, s, tuple(where)))
        if where != [want] or (want == "not_compliant" and nc.count(n) != 1):
            ctx.violation("partition:%s:%s-rule-in-%s" % (label, s, "+".join(where) or "nothing"),
                          "rule %s evaluated %s but is listed in %s (x%d)" % (n, s, where, nc.count(n)), case)
            ok = False
    extra = set(comp + na + nc) - set(names)
    if extra:
        ctx.violation("partition:%s:unknown-rule-listed" % label, "report lists rules that were not evaluated: %s" % sorted(extra), case)
        ok = False
    fs = report.get("status")
    want = "FAIL" if nc else ("PASS" if comp else "SKIP")
    if fs != want:
        ctx.violation("file-status:%s" % label, "file status %s but partitions imply %s (nc=%d c=%d na=%d)" % (fs, want, len(nc), len(comp), len(na)), case)
        ok = False
    if len(report.get("not_compliant", [])) != len(nc):
        ctx.violation("not-compliant-shape:%s" % label, "not_compliant contains non-Rule entries", case)
        ok = False
    # records of parameterised calls carry the message written at *that* call (or none)
    src = source_call_messages(case["rules"]) if isinstance(case.get("rules"), str) else None
    if src is not None:
        recs = []
        call_records(tree, recs)
        reps = []
        for e in report.get("not_compliant", []):
            nested_report_rules(e, reps)
        for where, lst in (("record", recs), ("report", reps)):
            for name, msg in lst:
                if name not in src:
                    continue        # a plain named rule evaluated lazily inside a reference
                ctx.res.counts["call_records"] += 1
                ctx.res.distinct.add(("call-message", where, msg is not None))
                if (msg or None) not in src[name]:
                    ctx.violation("call-message:%s:%s" % (label, where), "the %s of a call of %s carries message %r, but the calls of %s in the rules file have %s" % (
                        where, name, msg, name, sorted(src[name], key=str)), case)
                    ok = False
    # every listed unary check must fail on the value it prints (the clause is found through its unique message)
    umap = case.get("unary_clauses") or {}
    if umap:
        def uwalk(e):
            (k_, v_), = e.items()
            if k_ in ("Rule", "Disjunctions"):
                for c_ in v_.get("checks", []):
                    yield from uwalk(c_)
            elif k_ == "Clause" and "Unary" in v_:
                yield v_["Unary"]
        for e in report.get("not_compliant", []):
            for u in uwalk(e):
                msg_ = (u.get("messages") or {}).get("custom_message")
                chk_ = u.get("check") or {}
                if msg_ not in umap or not isinstance(chk_, dict):
                    continue
                op_, neg_, special_, some_ = umap[msg_]
                if "Resolved" in chk_:
                    val_ = (chk_["Resolved"].get("value") or {}).get("value")
                    tyname = {"is_string": str, "is_list": list, "is_struct": dict, "is_bool": bool}.get(op_)
                    holds = None
                    if op_ == "exists":
                        holds = True
                    elif op_ == "empty" and val_ is None:
                        holds = None                        # emptiness of null is not documented
                    elif op_ == "empty" and special_:
                        holds = False                       # a resolved element: the result set is not empty
                    elif op_ == "empty" and isinstance(val_, (str, list, dict)):
                        holds = len(val_) == 0
                    elif op_ == "is_int":
                        holds = isinstance(val_, int) and not isinstance(val_, bool)
                    elif op_ == "is_null":
                        holds = val_ is None
                    elif tyname is not None:
                        holds = isinstance(val_, tyname) and not (tyname is not bool and isinstance(val_, bool))
                    if holds is None:
                        continue
                    ctx.res.counts["listed_unary_checks_judged"] += 1
                    if holds != neg_:
                        ctx.violation("evidence:%s:listed-unary-check-does-not-fail" % label, "a listed failed check `%s%s` (message %s) prints the value %s, on which it holds" % (
                            "not " if neg_ else "", op_, msg_, json.dumps(val_)[:80]), case)
                        ok = False
                        break
    # every listed comparison must fail on the very values it prints
    for e in report.get("not_compliant", []):
        ev = []
        evidence(e, ev)
        for verdict, what in ev:
            ctx.res.counts["listed_comparisons_judged" if verdict is not None else "listed_comparisons_not_judged"] += 1
            if verdict is False:
                ctx.violation("evidence:%s:listed-check-does-not-fail" % label, "rule %s lists as failed a comparison that holds on the values it prints (%s)" % (
                    e.get("Rule", {}).get("name"), what), case)
                ok = False
                break
    # leaf attribution
    subtree = {}
    for ch in tree.get("children", []):
        k, v = obs.container_kind(ch)
        if k == "RuleCheck":
            acc = []
            tree_fail_messages(ch, acc)
            subtree[v["name"]] = acc
    for e in report.get("not_compliant", []):
        if "Rule" not in e:
            continue
        name = e["Rule"]["name"]
        leaves = []
        leaf_checks(e, leaves)
        avail = list(subtree.get(name, []))
        ctx.res.counts["leaf_checks"] += len(leaves)
        for kind, msg, path in leaves:
            ctx.res.extra.setdefault("leaf_kinds", set()).add(kind)
            if kind == "block":
                if None in avail:
                    avail.remove(None)
                    continue
                # a Block leaf stands for an unresolved block query (MissingBlockValue, no message)
                ctx.violation("attribution:%s:block-leaf-without-fail-record" % label, "rule %s lists a Block failure with no matching FAIL record" % name, case)
                ok = False
                continue
            key = msg if msg not in ("",) else None
            if key in avail:
                avail.remove(key)
            elif key is None and avail:
                avail.pop()
            else:
                ctx.violation("attribution:%s:%s" % (label, "message-mismatch" if avail else "no-fail-record"),
                              "rule %s lists a %s check with message %r that is not a FAIL check of that rule (FAIL messages there: %s)" % (
                                  name, kind, msg, subtree.get(name)), case)
                ok = False
    return ok


def canon_entry(e):
    return json.dumps(e, sort_keys=True)


def shard(ctx):
    rng = ctx.rng("c09")
    o = gen.Opts(types=True, calls=True, msgs=False, max_rules=4, max_lines=3, default=False, interp=True)
    # ---- comparisons between two queries with partial matches: only the values that do not match may be listed
    if ctx.mine(0):
        qdoc = {"xs": [1, 2, 3, 4], "allowed": [1, 2], "names": ["a", "b", "c"], "ok": ["a", "c"], "two": 2, "lim": "b", "none": []}
        qd = json.dumps(qdoc)
        qclauses = ["xs[*] in allowed[*]", "not xs[*] in allowed[*]", "xs[*] == allowed[*]", "xs[*] != allowed[*]", "names[*] in ok", "names[*] in ok[*]", "xs[*] > two",
                    "xs[*] <= two", "xs[*] in [1, 2]", "xs[*] not in allowed[*]", "names[*] not in ok[*]", "names[*] < lim", "not names[*] >= lim", "some xs[*] in allowed[*]",
                    "let a = allowed[*]\n    xs[*] in %a", "let a = allowed\n    xs[*] in %a", "let o = ok[*]\n    names[*] == %o", "let x = xs[*]\n    %x in allowed[*]"]
        qtext = "".join("rule q%d {\n    %s <<m%d>>\n}\n" % (i, c, i) for i, c in enumerate(qclauses))
        rv = ctx.w.run({"k": "rc", "data": qd, "rules": qtext, "verbose": True})
        rn = ctx.w.run({"k": "rc", "data": qd, "rules": qtext, "verbose": False})
        ctx.res.cases += 1
        if rv.get("r") != "ok" or rn.get("r") != "ok":
            ctx.inconclusive("crash" if (core.crash_signature(rv) or core.crash_signature(rn)) else "query-comparison-gadget-error")
        else:
            check_report(ctx, json.loads(rv["out"]), json.loads(rn["out"]), {"kind": "single", "rules": qtext, "data": qd}, "library")
            ctx.res.counts["query_comparison_gadgets"] += 1
    # ---- rules files without any named rule (a library of `let`s and parameterised rules), alone and next to files whose rules all skip
    if ctx.mine(2):
        lib = "let wanted = \"x\"\nrule helper(v) {\n    %v exists\n}\n"
        skipper = "rule never when zz_nokey exists {\n    a exists\n}\n"
        passer = "rule fine {\n    a exists\n}\n"
        for names_ in (["lib"], ["lib", "skipper"], ["skipper", "lib"], ["lib", "passer"], ["skipper"]):
            fl = {"d.json": "{\"a\": 1}", "lib.guard": lib, "skipper.guard": skipper, "passer.guard": passer}
            argv = ["validate", "--structured", "-S", "none", "-o", "json", "-d", "{S}/d.json"] + [x for n_ in names_ for x in ("-r", "{S}/%s.guard" % n_)]
            r = ctx.w.run({"k": "cli", "argv": argv, "files": fl})
            ctx.res.cases += 1
            if r.get("r") != "ok":
                ctx.inconclusive("crash" if core.crash_signature(r) else "library-file-gadget-error")
                continue
            try:
                rep = json.loads(r["out"])[0]
            except (ValueError, IndexError):
                ctx.violation("library-file:unparsable", "structured output for %s does not parse" % names_, {"kind": "libfiles", "names": names_})
                continue
            want = "FAIL" if rep.get("not_compliant") else ("PASS" if rep.get("compliant") else "SKIP")
            ctx.res.counts["library_file_reports"] += 1
            if rep.get("status") != want:
                ctx.violation("file-status:rules-file-without-rules", "rules files %s: status %s, but compliant=%s not_applicable=%s not_compliant=%d imply %s" % (
                    names_, rep.get("status"), rep.get("compliant"), rep.get("not_applicable"), len(rep.get("not_compliant", [])), want), {"kind": "libfiles", "names": names_})
            else:
                ctx.res.distinct.add(("library-file", tuple(names_), want))
    # ---- a clause that PASSES because the rule it names failed (`not size_ok`) is no failed check of the rule that holds it: the entry of that
    #      rule lists its own failing clause only, wherever the named rule stands in the file (evaluated before, or first reached through the reference)
    if ctx.mine(3):
        rdoc = json.dumps({"size": 3, "kind": "y"})
        r_size = "rule size_ok {\n    size == 2 <<m_size>>\n}\n"
        for form in ("not size_ok", "!size_ok", "not size_ok <<m_ref>>", "size_ok or\n    kind == \"y\" <<m_alt>>"):
            r_kind = "rule kind_ok {\n    %s\n    kind == \"x\" <<m_kind>>\n}\n" % form
            for order in ("named-first", "user-first"):
                text = (r_size + r_kind) if order == "named-first" else (r_kind + r_size)
                rn = ctx.w.run({"k": "rc", "data": rdoc, "rules": text, "verbose": False})
                ctx.res.cases += 1
                if rn.get("r") != "ok":
                    ctx.inconclusive("crash" if core.crash_signature(rn) else "passing-reference-gadget-error")
                    continue
                rep = json.loads(rn["out"])
                ent = [e for e in rep.get("not_compliant", []) if e.get("Rule", {}).get("name") == "kind_ok"]
                ctx.res.counts["passing_reference_gadgets"] += 1
                if len(ent) != 1:
                    ctx.violation("passing-reference:entry-count", "kind_ok has %d not_compliant entries" % len(ent), {"kind": "passref", "rules": text, "data": rdoc})
                    continue
                blob = json.dumps(ent[0])
                if "m_size" in blob or "m_kind" not in blob:
                    ctx.violation("passing-reference:foreign-check-listed", "the entry of kind_ok (clause `%s` passes, `kind == \"x\"` fails) %s%s; %s" % (
                        form.replace("\n", " "), "lists the failing check of size_ok" if "m_size" in blob else "", "" if "m_kind" in blob else " lacks its own failing check", order),
                        {"kind": "passref", "rules": text, "data": rdoc})
                else:
                    ctx.res.distinct.add(("passing-reference", form.split()[0], order))
    # ---- unary checks over several values of which some pass and some fail: only the failing ones may be listed
    if ctx.mine(1):
        udoc = {"Resources": {"a": {"Tags": [1], "Name": "x"}, "b": {"Name": 5}, "c": {"Tags": [], "Name": ""}, "d": {"Tags": [2], "Name": ["n"]}}}
        ud = json.dumps(udoc)
        uclauses = [("not %t empty", "empty", True, True), ("!%t empty", "empty", True, True), ("%t !empty", "empty", True, True), ("%t empty", "empty", False, True),
                    ("not Resources.*[ Tags exists ] empty", "empty", True, True), ("Resources.*.Name is_string", "is_string", False, False),
                    ("not Resources.*.Name is_string", "is_string", True, False), ("Resources.*.Name !is_list", "is_list", True, False),
                    ("Resources.*.Tags !exists", "exists", True, False), ("not Resources.*.Tags empty", "empty", True, False), ("Resources.*.Tags empty", "empty", False, False),
                    ("Resources.*.Name is_int", "is_int", False, False)]
        utext = "let t = Resources.*.Tags\n" + "".join("rule u%d {\n    %s <<um%d>>\n}\n" % (i, c[0], i) for i, c in enumerate(uclauses))
        # failing rules that also hold a block over an EMPTY selection (SKIP, no child records): the block is no failed check
        utext += ("let none = some Resources.*.Nope\nlet emptyf = Resources.*[ Name == \"nobody\" ]\n"
                  "rule g0 {\n    Resources.a.Name == \"never\" <<gm0>>\n    %none {\n        Name exists <<gm1>>\n    }\n}\n"
                  "rule g1 {\n    Resources.a.Name == \"never\" <<gm2>>\n    %emptyf {\n        Name exists <<gm3>>\n    }\n    Resources.*[ Name == \"nobody\" ] {\n        Name exists <<gm4>>\n    }\n}\n")
        umap_ = {"um%d" % i: [c[1], c[2], c[3], False] for i, c in enumerate(uclauses)}
        rv = ctx.w.run({"k": "rc", "data": ud, "rules": utext, "verbose": True})
        rn = ctx.w.run({"k": "rc", "data": ud, "rules": utext, "verbose": False})
        ctx.res.cases += 1
        if rv.get("r") != "ok" or rn.get("r") != "ok":
            ctx.inconclusive("crash" if (core.crash_signature(rv) or core.crash_signature(rn)) else "unary-gadget-error")
        else:
            check_report(ctx, json.loads(rv["out"]), json.loads(rn["out"]), {"kind": "single", "rules": utext, "data": ud, "unary_clauses": umap_}, "library")
            ctx.res.counts["unary_gadgets"] += 1
    n = 500 if ctx.quick else 18000
    for t in range(n):
        doc = gen.gen_doc(rng)
        docs = json.dumps(doc)
        k = 1 if rng.random() < 0.75 else rng.randint(2, 3)
        files = []
        uinfo = []
        for fi in range(k):
            f = gen.gen_file(rng, doc, o)
            # distinct names across files
            for r in f["rules"]:
                r["name"] = "f%d%s" % (fi, r["name"])
            for kind, cnf in gen.iter_cnfs(f):
                for line in cnf:
                    for alt in line:
                        if alt["t"] in ("ref", "call"):
                            alt["name"] = "f%d%s" % (fi, alt["name"])
            uinfo.append(number_messages(f, "msg%d_" % fi))
            files.append(gen.pfile(f))
        singles = []
        bad = False
        for text in files:
            rv = ctx.w.run({"k": "rc", "data": docs, "rules": text, "verbose": True})
            rn = ctx.w.run({"k": "rc", "data": docs, "rules": text, "verbose": False})
            ctx.res.cases += 1
            if rv.get("r") != "ok" or rn.get("r") != "ok":
                if core.crash_signature(rv) or core.crash_signature(rn):
                    ctx.inconclusive("crash")
                else:
                    ctx.inconclusive("evaluation-error")
                bad = True
                break
            tree = json.loads(rv["out"])
            rep = json.loads(rn["out"])
            case = {"kind": "single", "rules": text, "data": docs, "unary_clauses": uinfo[files.index(text)]}
            check_report(ctx, tree, rep, case, "library")
            singles.append((tree, rep))
            if len(ctx.res.samples) < 2 and rep.get("not_compliant"):
                ctx.sample({"rules": text[:500], "statuses": obs.tree_rule_statuses(tree), "report_partition":
                            {"compliant": rep["compliant"], "not_applicable": rep["not_applicable"],
                             "not_compliant": [e["Rule"]["name"] for e in rep["not_compliant"]]}})
        if bad:
            continue
        # CLI structured report (single or several rules files) == union of the singleton reports
        if k > 1 or t % 5 == 0:
            fl = {"d.json": docs}
            argv = ["validate", "--structured", "-S", "none", "-o", "json", "-d", "{S}/d.json"]
            same_base = t % 2 == 1       # every other batch: one base name in different directories (still different files)
            names_ = [("dir%d/baseline.guard" % i) if same_base else ("r%d.guard" % i) for i in range(len(files))]
            for i, text in enumerate(files):
                fl[names_[i]] = text
                argv += ["-r", "{S}/" + names_[i]]
            ctx.res.counts["batches_same_base_name" if same_base else "batches_distinct_names"] += 1
            rc = ctx.w.run({"k": "cli", "argv": argv, "files": fl})
            ctx.res.cases += 1
            case = {"kind": "batch", "rules": files, "data": docs}
            if rc.get("r") != "ok":
                ctx.inconclusive("crash" if core.crash_signature(rc) else "cli-error")
                continue
            try:
                batch = json.loads(rc["out"])[0]
            except (ValueError, IndexError):
                ctx.violation("batch:unparsable", "structured output is not a JSON list with one report", case)
                continue
            ctx.res.counts["batch_reports"] += 1
            # the single reports through the same front end (same loader, same file names)
            cli_singles = []
            for i, text in enumerate(files):
                r1 = ctx.w.run({"k": "cli", "argv": ["validate", "--structured", "-S", "none", "-o", "json", "-d", "{S}/d.json", "-r", "{S}/" + names_[i]],
                                "files": {"d.json": docs, names_[i]: text}})
                try:
                    cli_singles.append(json.loads(r1["out"])[0])
                except (ValueError, IndexError, KeyError):
                    cli_singles = None
                    break
            if cli_singles is None:
                ctx.inconclusive("cli-single-error")
                continue
            uc = sorted(set().union(*[set(r["compliant"]) for r in cli_singles]))
            un = sorted(set().union(*[set(r["not_applicable"]) for r in cli_singles]))
            unc = sorted(canon_entry(strip_paths(e)) for r in cli_singles for e in r["not_compliant"])
            bnc = sorted(canon_entry(strip_paths(e)) for e in batch["not_compliant"])
            # and the CLI single report must partition like the library one
            for (tree, rep), cs in zip(singles, cli_singles):
                if (sorted(cs["compliant"]), sorted(cs["not_applicable"]), sorted(e["Rule"]["name"] for e in cs["not_compliant"])) != \
                        (sorted(rep["compliant"]), sorted(rep["not_applicable"]), sorted(e["Rule"]["name"] for e in rep["not_compliant"])):
                    ctx.violation("cli-vs-library-partition", "CLI structured report partitions rules differently from the library report", case)
            if sorted(batch["compliant"]) != uc or sorted(batch["not_applicable"]) != un:
                ctx.violation("union:names", "batch compliant/not_applicable %s/%s differ from the union of the single reports %s/%s" % (
                    batch["compliant"], batch["not_applicable"], uc, un), case)
            elif bnc != unc:
                ctx.violation("union:not-compliant", "batch not_compliant entries differ from the union of the single reports (%d vs %d entries)" % (len(bnc), len(unc)), case)
            want = "FAIL" if batch["not_compliant"] else ("PASS" if batch["compliant"] else "SKIP")
            if batch["status"] != want:
                ctx.violation("file-status:batch", "batch file status %s, partitions imply %s" % (batch["status"], want), case)
            ctx.res.distinct.add(("batch", k, batch["status"]))


def strip_paths(e):
    """the CLI loader attaches line/column information to messages; compare reports without them"""
    import re
    s = json.dumps(e)
    s = re.sub(r"\[L:\d+,C:\d+\]", "[L,C]", s)
    s = re.sub(r"file:[^,\]]*", "file:F", s)
    s = re.sub(r"Location \{ line: \d+, col: \d+ \}", "Location", s)
    return json.loads(s)


def replay(case, w):
    if case.get("kind") == "passref":
        rn = w.run({"k": "rc", "data": case["data"], "rules": case["rules"], "verbose": False})
        if rn.get("r") != "ok":
            return False, "evaluation failed"
        ent = [e for e in json.loads(rn["out"]).get("not_compliant", []) if e.get("Rule", {}).get("name") == "kind_ok"]
        blob = json.dumps(ent)
        return len(ent) == 1 and "m_size" not in blob and "m_kind" in blob, "entry of kind_ok: %s" % blob[:300]
    if case.get("kind") == "libfiles":
        fl = {"d.json": "{\"a\": 1}", "lib.guard": "let wanted = \"x\"\nrule helper(v) {\n    %v exists\n}\n",
              "skipper.guard": "rule never when zz_nokey exists {\n    a exists\n}\n", "passer.guard": "rule fine {\n    a exists\n}\n"}
        argv = ["validate", "--structured", "-S", "none", "-o", "json", "-d", "{S}/d.json"] + [x for n_ in case["names"] for x in ("-r", "{S}/%s.guard" % n_)]
        r = w.run({"k": "cli", "argv": argv, "files": fl})
        try:
            rep = json.loads(r["out"])[0]
        except (ValueError, IndexError, KeyError):
            return False, "no report"
        want = "FAIL" if rep.get("not_compliant") else ("PASS" if rep.get("compliant") else "SKIP")
        return rep.get("status") == want, "status %s, lists imply %s" % (rep.get("status"), want)

    class C:
        pass
    msgs = []

    class Ctx:
        res = core.ShardResult()

        def violation(self, sig, what, rp):
            msgs.append(sig)

        def inconclusive(self, why):
            pass
    c = Ctx()
    texts = [case["rules"]] if case["kind"] == "single" else case["rules"]
    for text in texts:
        rv = w.run({"k": "rc", "data": case["data"], "rules": text, "verbose": True})
        rn = w.run({"k": "rc", "data": case["data"], "rules": text, "verbose": False})
        if rv.get("r") != "ok" or rn.get("r") != "ok":
            return True, "evaluation error"
        check_report(c, json.loads(rv["out"]), json.loads(rn["out"]), case, "library")
    return not msgs, "violations: %s" % msgs


def main(tier, seed):
    t0 = time.time()
    core.build()
    res = core.run_shards(shard, seed, tier, "C09")
    kinds = res.extra.get("leaf_kinds", set())
    floor = {"cases": (res.cases, 1500), "leaf_checks": (res.counts["leaf_checks"], 1000), "batch_reports": (res.counts["batch_reports"], 100),
             "leaf_kinds": (len(kinds), 3), "call_records": (res.counts["call_records"], 150)}
    return core.finish("C09", tier, seed, res, t0,
                       rule="random programs (distinct rule names, every clause with a unique custom message; type blocks, parameterised rules, nested blocks) x "
                            "documents: verbose record tree vs structured report of the same evaluation, and CLI batch reports over 1-3 rules files vs the union of "
                            "the single reports; distinct = (channel, rule status, partitions it appears in)",
                       floor=floor,
                       assumptions=["rule names are distinct (as the property's quantifier says)", "records under Filter nodes are query-resolution records, never reported as checks"])
