"""C13 - comparison operators form a coherent algebra over values.

Exhaustive: every ordered pair of a 54-value universe x {==,<,<=,>,>=} x both
polarities x {query RHS, literal RHS}; `in [..]`, the four range bracket forms and
regex search are checked against Python on sampled/enumerated operands.
Oracle: Python semantics on the model values (ints exact, floats IEEE, strings by
code point); see DESIGN.md P-C13 for the excluded (list-flattening) pairs.
"""
import json
import math
import re
import time

from .. import core, gen, obs

I64MAX = 2 ** 63 - 1
I64MIN = -(2 ** 63)
U = [
    -1, 0, 1, 2, 10, I64MAX, I64MIN,
    0.0, -0.0, 1.0, 1.5, -1.5, 1e308, 5e-324,
    "", "a", "ab", "b", "B", "é", "á", "1",
    True, False, None,
    [], [1], [1, 2], [2, 1],
    {}, {"a": 1, "b": 2}, {"b": 2, "a": 1}, {"a": 1},
    3, 2.5, "abc", [1, 2, 3], {"a": 2}, "A", 1e-3,
    # neighbours that only an exact integer / float comparison tells apart
    2 ** 53, 2 ** 53 + 1, I64MAX - 1, -(2 ** 53) - 1, 0.1 + 0.2, 0.3,
    # strings that spell integers: ordered and compared as TEXT ("9" > "10", "007" != "7")
    "9", "10", "007", "7", "+5", "5", "100", "20",
]
assert len(U) == 54


def tclass(v):
    if v is None:
        return "null"
    if isinstance(v, bool):
        return "bool"
    if isinstance(v, int):
        return "int"
    if isinstance(v, float):
        return "float"
    if isinstance(v, str):
        return "str"
    if isinstance(v, list):
        return "list"
    return "map"


ORDERED = ("int", "float", "str")


def deep_eq(x, y):
    tx, ty = tclass(x), tclass(y)
    if tx != ty:
        return False
    if tx == "list":
        return len(x) == len(y) and all(deep_eq(a, b) for a, b in zip(x, y))
    if tx == "map":
        return set(x) == set(y) and all(deep_eq(x[k], y[k]) for k in x)
    return x == y


def expected(op, neg, x, y):
    """'PASS'/'FAIL' or None (excluded, see DESIGN P-C13 guards)"""
    tx, ty = tclass(x), tclass(y)
    if (tx == "list") != (ty == "list"):
        return None                      # documented one-level flattening
    if tx == "list" and op != "==":
        return None                      # ordering ops flatten both sides
    if tx != ty:
        return "FAIL"                    # different types never satisfy, either polarity
    if tx in ORDERED:
        c = (x > y) - (x < y)
        r = {"==": c == 0, "<": c < 0, "<=": c <= 0, ">": c > 0, ">=": c >= 0}[op]
        return "PASS" if r != neg else "FAIL"
    if op == "==":
        return "PASS" if deep_eq(x, y) != neg else "FAIL"
    return "FAIL"                        # unordered types never satisfy an ordering


def clause_text(i, j, op, neg, form):
    lhs = "v%d" % i
    rhs = "v%d" % j if form in ("q", "v") else gen.glit(U[j])
    if form == "v":
        # the left operand is a literal bound to a variable, the right one comes from the document (symmetry of the comparison)
        lhs = "%lv"
    pre = "let lv = %s\n    " % gen.glit(U[i]) if form == "v" else ""
    if op == "==":
        o = "!=" if neg else "=="
        return "%s%s %s %s" % (pre, lhs, o, rhs)
    return "%s%s%s %s %s" % (pre, "not " if neg else "", lhs, op, rhs)


DOC = json.dumps({"v%d" % i: v for i, v in enumerate(U)})

REGEX_SAMPLES = ["a", "^a", "a$", "^ab?$", "b+", "[a-c]+", "^$", "a|b", "(ab)+", "\\d", "^[A-Z]", "a.c", "x*", "^.{2}$", "é"]
STRS = ["", "a", "ab", "b", "B", "abc", "xaby", "1", "a1", "é", "aXc", "abab"]


def run_file(ctx, rules_lines, doc=DOC):
    """rules_lines: list of (name, clause text). returns {name: status} or None on error"""
    text = "".join("rule %s {\n    %s\n}\n" % (n, c) for n, c in rules_lines)
    res = ctx.w.run({"k": "rc", "data": doc, "rules": text, "verbose": False})
    kind, st, _ = obs.rc_statuses(res)
    if kind != "ok":
        return None, res, text
    return st, res, text


def shard(ctx):
    n = len(U)
    idx = 0
    for i in range(n):
        for j in range(n):
            idx += 1
            if not ctx.mine(idx):
                continue
            x, y = U[i], U[j]
            cases = []
            for op in ["==", "<", "<=", ">", ">="]:
                for neg in (False, True):
                    for form in ("q", "l", "v"):
                        if form == "l" and not gen.lit_spellable(y):
                            continue
                        if form == "v" and not gen.lit_spellable(x):
                            continue
                        exp = expected(op, neg, x, y)
                        name = "r%d" % len(cases)
                        cases.append((name, clause_text(i, j, op, neg, form), exp, (op, neg, form)))
            st, res, text = run_file(ctx, [(c[0], c[1]) for c in cases])
            if st is None:
                # evaluate one by one so that one erroring clause does not hide the others
                st = {}
                for c in cases:
                    s1, r1, t1 = run_file(ctx, [(c[0], c[1])])
                    if s1 is None:
                        sig = core.crash_signature(r1)
                        if sig:
                            ctx.inconclusive("crash:" + sig)
                        else:
                            st[c[0]] = "ERR"
                    else:
                        st.update(s1)
            for name, ctext, exp, (op, neg, form) in cases:
                got = st.get(name)
                ctx.res.cases += 1
                if exp is None:
                    ctx.res.counts["excluded_list_flattening"] += 1
                    continue
                if got is None:
                    ctx.inconclusive("no-status")
                    continue
                cls = (op, neg, form, tclass(x), tclass(y), got)
                ctx.res.distinct.add(cls)
                if got != exp:
                    same = tclass(x) == tclass(y)
                    sig = "cmp:%s%s:%s:%s" % ("not-" if neg else "", op, {"q": "query-rhs", "l": "literal-rhs", "v": "literal-variable-lhs"}[form],
                                              ("same-type-" + tclass(x)) if same else "cross-type")
                    if same and tclass(x) == "null" and op != "==":
                        sig = "cmp:null-ordering"
                    ctx.violation(sig, "clause `%s` with v%d=%s v%d=%s: tool=%s oracle=%s" % (
                        ctext, i, gen.jdump(x), j, gen.jdump(y), got, exp),
                        {"kind": "pair", "rules": "rule r {\n    %s\n}\n" % ctext, "data": DOC, "expected": exp})
                elif len(ctx.res.samples) < 2 and exp == "PASS":
                    ctx.sample({"clause": ctext, "lhs": x, "rhs": y, "tool": got, "oracle": exp})

    # ---- random operands beyond the fixed universe (both tiers; volume by tier): random 64-bit integers and their neighbours, random
    #      doubles (bit patterns), random unicode strings and their prefixes; same oracle
    import struct
    r0 = ctx.rng("randpairs")

    def rand_int():
        k = r0.random()
        if k < 0.3:
            return r0.randint(I64MIN, I64MAX)
        if k < 0.6:
            return r0.choice([2 ** 53, -(2 ** 53), 2 ** 62, I64MAX, I64MIN, 10 ** 15, 0]) + r0.randint(-3, 3) if True else 0
        return r0.randint(-1000, 1000)

    def rand_float():
        while True:
            f = struct.unpack("<d", struct.pack("<Q", r0.getrandbits(64)))[0] if r0.random() < 0.5 else r0.choice([0.1, 1.5, 1e15, 2.0 ** 53, 1e-300, 123.456]) * r0.choice([1, -1, 3, 1 + 2 ** -52])
            if math.isfinite(f):
                return f

    def rand_str():
        alphabet = "abAB01 zé日ß\u0301"
        base = "".join(r0.choice(alphabet) for _ in range(r0.randint(0, 5)))
        return base if r0.random() < 0.7 else base + r0.choice(["", "a", "\u0000"[:0], "é"])
    gens = [rand_int, rand_float, rand_str]
    nrand = 12 if ctx.quick else 1500
    for t in range(nrand):
        vals, cases = {}, []
        for pi in range(12):
            gx = r0.choice(gens)
            x = gx()
            y = r0.choice([gx(), gx(), x, r0.choice(gens)()])
            if isinstance(x, int) and not isinstance(x, bool) and not (I64MIN <= x <= I64MAX):
                x = I64MAX
            if isinstance(y, int) and not isinstance(y, bool) and not (I64MIN <= y <= I64MAX):
                y = I64MIN
            if isinstance(y, float) and y == 0 and math.copysign(1, y) < 0:
                y = 0.0
            vals["a%d" % pi], vals["b%d" % pi] = x, y
            for op in ["==", "<", "<=", ">", ">="]:
                neg = r0.random() < 0.5
                forms = ["q"] + (["l"] if gen.lit_spellable(y) else [])
                for form in forms:
                    lhs, rhs = "a%d" % pi, ("b%d" % pi if form == "q" else gen.glit(y))
                    ctext = ("%s %s %s" % (lhs, "!=" if neg else "==", rhs)) if op == "==" else ("%s%s %s %s" % ("not " if neg else "", lhs, op, rhs))
                    cases.append(("r%d" % len(cases), ctext, expected(op, neg, x, y), x, y, form, op, neg))
        doc = json.dumps(vals)
        if json.loads(doc) != vals:
            continue            # a float that does not survive the JSON round trip exactly: not a statement about the tool
        st, res, text = run_file(ctx, [(c[0], c[1]) for c in cases], doc)
        if st is None:
            ctx.inconclusive("random-pairs-file-error")
            continue
        for name, ctext, exp, x, y, form, op, neg in cases:
            ctx.res.cases += 1
            got = st.get(name)
            ctx.res.counts["random_operand_clauses"] += 1
            if exp is None or got is None:
                continue
            ctx.res.distinct.add(("random", op, neg, form, tclass(x), tclass(y), got))
            if got != exp:
                same = tclass(x) == tclass(y)
                sig = "cmp:%s%s:%s:%s" % ("not-" if neg else "", op, {"q": "query-rhs", "l": "literal-rhs"}[form], ("same-type-" + tclass(x)) if same else "cross-type")
                ctx.violation(sig, "clause `%s` with lhs=%s rhs=%s: tool=%s oracle=%s" % (ctext, gen.jdump(x), gen.jdump(y), got, exp),
                              {"kind": "pair", "rules": "rule r {\n    %s\n}\n" % ctext, "data": doc, "expected": exp})

    # ---- in [..] : X in [v1..vn] iff X equals some vi   (scalars, literal lists)
    rng = ctx.rng("in")
    scal = [k for k, v in enumerate(U) if tclass(v) not in ("list", "map") and gen.lit_spellable(v)]
    allscal = [k for k, v in enumerate(U) if tclass(v) not in ("list", "map")]
    nin = 40 if ctx.quick else 4000
    for t in range(nin):
        cases = []
        for _ in range(20):
            i = rng.choice(allscal)
            lst = [U[k] for k in rng.sample(scal, rng.randint(1, 3))]
            neg = rng.random() < 0.4
            same = [m for m in lst if tclass(m) == tclass(U[i])]
            if not same:
                continue    # only cross-type members: not-comparable semantics, covered by the pair matrix
            if len(same) != len(lst):
                continue    # mixed-type lists: each member comparison is a separate documented case; keep homogeneous
            r = any(deep_eq(U[i], m) for m in lst)
            exp = "PASS" if r != neg else "FAIL"
            ctext = "v%d %sin %s" % (i, "not " if neg else "", gen.glit(lst))
            cases.append(("r%d" % len(cases), ctext, exp, i, lst))
        if not cases:
            continue
        st, res, text = run_file(ctx, [(c[0], c[1]) for c in cases])
        if st is None:
            ctx.inconclusive("in-file-error")
            continue
        for name, ctext, exp, i, lst in cases:
            ctx.res.cases += 1
            got = st.get(name)
            ctx.res.distinct.add(("in", tclass(U[i]), len(lst), got))
            if got != exp:
                ctx.violation("in-list:%s" % tclass(U[i]), "clause `%s` v%d=%s tool=%s oracle=%s" % (ctext, i, gen.jdump(U[i]), got, exp),
                              {"kind": "pair", "rules": "rule r {\n    %s\n}\n" % ctext, "data": DOC, "expected": exp})

    # ---- literal (bound to a variable) on the left of `in`, a list from the document on the right: holds iff the literal equals some element
    if ctx.mine(2):
        lists = [(k, v) for k, v in enumerate(U) if tclass(v) == "list"]
        scalars = [1, 2, 3, 5, "a", "1", 1.5, True]
        cases = []
        for s_ in scalars:
            for k, lst in lists:
                for neg in (False, True):
                    r = any(deep_eq(s_, m) for m in lst)
                    if not lst:
                        continue            # empty right-hand side: the clause compares nothing (documented SKIP zone), not asserted
                    exp = "PASS" if r != neg else "FAIL"
                    ctext = "let lv = %s\n    %%lv %sin v%d" % (gen.glit(s_), "not " if neg else "", k)
                    cases.append(("r%d" % len(cases), ctext, exp, s_, lst))
                    if not any(isinstance(m, (list, dict)) for m in lst):
                        # the same list given as its elements (`v[*]`) and through a query-bound variable: still "equals some element"
                        cases.append(("r%d" % len(cases), "let lv = %s\n    %%lv %sin v%d[*]" % (gen.glit(s_), "not " if neg else "", k), exp, s_, lst))
                        cases.append(("r%d" % len(cases), "let lv = %s\n    let qv = v%d[*]\n    %%lv %sin %%qv" % (gen.glit(s_), k, "not " if neg else ""), exp, s_, lst))
                        cases.append(("r%d" % len(cases), "let lv = %s\n    %ssome %%lv in v%d[*]" % (gen.glit(s_), "not " if neg else "", k), exp, s_, lst))
        st, res, text = run_file(ctx, [(c[0], c[1]) for c in cases])
        if st is None:
            ctx.inconclusive("literal-in-list-file-error")
        else:
            for name, ctext, exp, s_, lst in cases:
                ctx.res.cases += 1
                got = st.get(name)
                ctx.res.distinct.add(("lit-in-list", tclass(s_), len(lst), got))
                if got != exp:
                    ctx.violation("in-list:literal-lhs:%s" % tclass(s_), "clause `%s` literal=%s list=%s tool=%s oracle=%s" % (ctext.replace("\n    ", "; "), gen.jdump(s_), gen.jdump(lst), got, exp),
                                  {"kind": "pair", "rules": "rule r {\n    %s\n}\n" % ctext, "data": DOC, "expected": exp})

    # ---- ranges: exhaustive over bracket forms x bound pairs x int / float values
    if ctx.mine(0):
        ints = [v for v in U if tclass(v) == "int"]
        floats = [v for v in U if tclass(v) == "float" and gen.lit_spellable(v)]
        ivals = [(k, v) for k, v in enumerate(U) if tclass(v) == "int"]
        fvals = [(k, v) for k, v in enumerate(U) if tclass(v) == "float"]
        for vals, bounds in ((ivals, [(0, 2), (1, 10), (-1, 1), (2, 2), (0, I64MAX)]),
                             (fvals, [(0.0, 1.5), (1.0, 2.5), (0.001, 1e308), (1.5, 1.5)])):
            cases = []
            for (k, v) in vals:
                for lo, hi in bounds:
                    for o in "[(":
                        for c in ")]":
                            for neg in (False, True):
                                r = (v >= lo if o == "[" else v > lo) and (v <= hi if c == "]" else v < hi)
                                exp = "PASS" if r != neg else "FAIL"
                                ctext = "v%d %sin r%s%s,%s%s" % (k, "not " if neg else "", o, gen.glit(lo), gen.glit(hi), c)
                                cases.append(("r%d" % len(cases), ctext, exp, v))
            st, res, text = run_file(ctx, [(c[0], c[1]) for c in cases])
            if st is None:
                ctx.inconclusive("range-file-error")
                continue
            for name, ctext, exp, v in cases:
                ctx.res.cases += 1
                got = st.get(name)
                ctx.res.distinct.add(("range", ctext.split(" in ")[-1][:2], tclass(v), got))
                if got != exp:
                    ctx.violation("range:%s" % tclass(v), "clause `%s` value=%s tool=%s oracle=%s" % (ctext, gen.jdump(v), got, exp),
                                  {"kind": "pair", "rules": "rule r {\n    %s\n}\n" % ctext, "data": DOC, "expected": exp})

    # ---- regex: X == /re/ iff re.search
    if ctx.mine(1):
        doc = json.dumps({"s%d" % k: s for k, s in enumerate(STRS)})
        samples = list(REGEX_SAMPLES)
        if not ctx.quick:
            r2 = ctx.rng("re")
            atoms = ["a", "b", "c", ".", "[ab]", "\\d", "x", "(ab)", "1"]
            for _ in range(300):
                s = "".join(r2.choice(atoms) + r2.choice(["", "", "*", "+", "?"]) for _ in range(r2.randint(1, 3)))
                s = r2.choice(["", "^"]) + s + r2.choice(["", "$"])
                samples.append(s)
        for rx in samples:
            try:
                cre = re.compile(rx)
            except re.error:
                continue
            cases = []
            for k, s in enumerate(STRS):
                for neg in (False, True):
                    r = cre.search(s) is not None
                    exp = "PASS" if r != neg else "FAIL"
                    ctext = "s%d %s %s" % (k, "!=" if neg else "==", gen.glit({"$re": rx}))
                    cases.append(("r%d" % len(cases), ctext, exp, s))
                    # the pattern bound to a variable: on the right, and on the LEFT of the comparison (`==` is symmetric)
                    cases.append(("r%d" % len(cases), "let re = %s\n    s%d %s %%re" % (gen.glit({"$re": rx}), k, "!=" if neg else "=="), exp, s))
                    cases.append(("r%d" % len(cases), "let re = %s\n    %%re %s s%d" % (gen.glit({"$re": rx}), "!=" if neg else "==", k), exp, s))
            st, res, text = run_file(ctx, [(c[0], c[1]) for c in cases], doc)
            if st is None:
                ctx.inconclusive("regex-file-error")
                continue
            for name, ctext, exp, s in cases:
                ctx.res.cases += 1
                got = st.get(name)
                ctx.res.distinct.add(("regex", rx if len(rx) < 8 else "long", got))
                if got != exp:
                    ctx.violation("regex-search", "clause `%s` string=%s tool=%s oracle=%s" % (ctext, gen.jdump(s), got, exp),
                                  {"kind": "pair", "rules": "rule r {\n    %s\n}\n" % ctext, "data": doc, "expected": exp})


def replay(case, w):
    res = w.run({"k": "rc", "data": case["data"], "rules": case["rules"], "verbose": False})
    kind, st, _ = obs.rc_statuses(res)
    got = st.get("r") if kind == "ok" else "ERR"
    return got == case["expected"], "tool=%s expected=%s" % (got, case["expected"])


def main(tier, seed):
    t0 = time.time()
    core.build()
    res = core.run_shards(shard, seed, tier, "C13")
    pairs_cases = res.cases
    floor = {"cases": (res.cases, 20000), "distinct_classes": (len(res.distinct), 100)}
    return core.finish("C13", tier, seed, res, t0,
                       rule="every ordered pair of the 54-value universe x 5 operators x 2 polarities x {query,literal} RHS, "
                            "plus in-list, 4 range bracket forms x bound pairs, regex search vs python re; a case is distinct by "
                            "(operator, polarity, rhs form, lhs type, rhs type, status)",
                       floor=floor, exhaustive=True,
                       assumptions=["list-vs-scalar pairs and ordering operators on lists are excluded (documented one-level flattening)",
                                    "regex samples restricted to syntax common to python re and fancy-regex"])
