"""C04 - verdicts do not depend on the order or repetition of clauses and rules.

Metamorphic monitor: a base program and its order/repetition transforms are evaluated on the same
documents; the rule -> status maps must be equal whenever no variant raised an evaluation error.
The H1 hook stream (VarResolve / RuleStatus events) is recorded to show that the transforms really
changed the memoisation history.
"""
import itertools
import json
import time

from .. import core, gen, obs

OPTS = dict(types=True, calls=False, max_rules=4, max_lines=4, some_lets=True, keys_filters=True, interp=True)


def status_map(ctx, text, docs, events=False):
    res = ctx.w.run({"k": "rc", "data": docs, "rules": text, "verbose": False, "events": events})
    kind, st, fs = obs.rc_statuses(res)
    if kind == "ok":
        st = dict(st)
        st["<file>"] = fs
        return st, res
    if core.crash_signature(res):
        return "crash", res
    return "err", res


def history(res):
    evs = res.get("events") or []
    v = tuple(e for e in evs if e.startswith("V|"))
    r = tuple(e for e in evs if e.startswith("R|") and "|begin|" not in e)
    return v, r


def permute_container(rng, cnf):
    idx = list(range(len(cnf)))
    rng.shuffle(idx)
    cnf[:] = [cnf[i] for i in idx]


def variants(rng, f, exhaustive_rules=True):
    """yield (label, file ast, relation) ; relation: ('same',) | ('copy', new, orig) | ('early', new, target)"""
    # 1. permute the lines of every container
    for rep in range(2):
        g = gen.clone(f)
        for kind, cnf in gen.iter_cnfs(g):
            if kind != "filter" or True:
                permute_container(rng, cnf)
        yield "permute-lines", g, ("same",)
    # all permutations of the body of one rule when it has 2..4 lines
    cands = [i for i, r in enumerate(f["rules"]) if 2 <= len(r["body"]) <= 4 and not r.get("params")]
    if cands:
        ri = rng.choice(cands)
        n = len(f["rules"][ri]["body"])
        perms = list(itertools.permutations(range(n)))
        rng.shuffle(perms)
        for perm in perms[:6]:
            g = gen.clone(f)
            b = g["rules"][ri]["body"]
            b[:] = [b[i] for i in perm]
            yield "permute-rule-body", g, ("same",)
    # 2. permute alternatives
    for rep in range(2):
        g = gen.clone(f)
        for kind, cnf in gen.iter_cnfs(g):
            for line in cnf:
                rng.shuffle(line)
        yield "permute-alternatives", g, ("same",)
    # 3. duplicate a clause (line) somewhere
    g = gen.clone(f)
    conts = [c for k, c in gen.iter_cnfs(g)]
    if conts:
        c = rng.choice(conts)
        i = rng.randrange(len(c))
        c.insert(rng.randrange(len(c) + 1), gen.clone(c[i]))
        yield "duplicate-line", g, ("same",)
    g = gen.clone(f)
    conts = [c for k, c in gen.iter_cnfs(g)]
    if conts:
        c = rng.choice(conts)
        line = rng.choice(c)
        line.insert(rng.randrange(len(line) + 1), gen.clone(rng.choice(line)))
        yield "duplicate-alternative", g, ("same",)
    # 4. permute rules (definitions that share a name keep their relative order: which alternative applies first is by construction order dependent)
    n = len(f["rules"])
    names = [r["name"] for r in f["rules"]]
    dup_names = {x for x in names if names.count(x) > 1}

    def keeps_alternative_order(perm):
        for x in dup_names:
            idx = [perm.index(i) for i, nm in enumerate(names) if nm == x]
            if idx != sorted(idx):
                return False
        return True
    if n > 1:
        perms = [p_ for p_ in itertools.permutations(range(n)) if keeps_alternative_order(p_)] if n <= 6 else []
        rng.shuffle(perms)
        for perm in perms[:6]:
            g = gen.clone(f)
            g["rules"] = [g["rules"][i] for i in perm]
            yield "permute-rules", g, ("same",)
    # 5. copy of a rule under a fresh name (at a random position)
    plain = [i for i, r in enumerate(f["rules"]) if not r.get("params")]
    single = [i for i in plain if f["rules"][i]["name"] not in dup_names]
    if single:
        g = gen.clone(f)
        ri = rng.choice(single)
        cp = gen.clone(g["rules"][ri])
        cp["name"] = "zcopy"
        g["rules"].insert(rng.randrange(len(g["rules"]) + 1), cp)
        yield "copy-rule", g, ("copy", "zcopy", f["rules"][ri]["name"])
    if plain:
        # 6. a new first rule that references an existing rule early (forces early memoisation)
        g = gen.clone(f)
        tgt = f["rules"][rng.choice(plain)]["name"]
        g["rules"].insert(0, gen.rule("zearly", [[{"t": "ref", "neg": False, "name": tgt, "msg": None}]]))
        yield "early-reference", g, ("early", "zearly", tgt)
        g = gen.clone(f)
        g["rules"].append(gen.rule("zlate", [[{"t": "ref", "neg": False, "name": tgt, "msg": None}]]))
        yield "late-reference", g, ("early", "zlate", tgt)


def compare(base, var, rel):
    """returns None or description of the difference"""
    v = dict(var)
    if rel[0] == "copy":
        new, orig = rel[1], rel[2]
        if v.get(new) != base.get(orig):
            return "copy %s of %s: %s vs %s" % (new, orig, v.get(new), base.get(orig))
        v.pop(new, None)
        # file status may legitimately stay equal: a copy adds a rule with the same status
    elif rel[0] == "early":
        new, tgt = rel[1], rel[2]
        defs = set((base.get(tgt) or "").split("+"))
        if "PASS" in defs and "FAIL" in defs:
            # alternatives of one name with both PASS and FAIL: which one is "the" status depends on definition order, not asserted
            want = v.get(new)
        else:
            want = "PASS" if "PASS" in defs else "FAIL"
        if v.get(new) != want:
            return "reference rule %s -> %s(%s) is %s" % (new, tgt, base.get(tgt), v.get(new))
        v.pop(new, None)
        b = dict(base)
        # the file status may change only through the new rule
        if want == "FAIL":
            v.pop("<file>", None)
            b.pop("<file>", None)
        elif base.get("<file>") == "SKIP":
            v.pop("<file>", None)
            b.pop("<file>", None)
        if v != b:
            return "statuses changed: base %s variant %s" % (b, v)
        return None
    if v != base:
        diff = {k: (base.get(k), v.get(k)) for k in set(base) | set(v) if base.get(k) != v.get(k)}
        return "statuses changed (base, variant): %s" % diff
    return None


def shard(ctx):
    rng = ctx.rng("c04")
    o = gen.Opts(**OPTS)
    o.unary_w = 0.3
    # ---- keys that differ only in spelling convention (BucketName / bucket_name / bucketName ...): the evaluator's fallback from the written
    #      key to a converted spelling must pick the same entry whatever was looked up before (lines, rules, earlier evaluations)
    if ctx.mine(1):
        import itertools as _it
        cvdoc = {"cv": {"BucketName": "x1", "bucket_name": "x2", "retention_days": 7, "RetentionDays": 9, "log-group": 1, "LogGroup": 2, "plain": 0,
                        # keys that only ONE converter reaches from the spelling used in the rules
                        "only_snake": 1, "only-kebab": 1, "Only Title": 1, "Only-Train": 1, "OnlyPascal": 1}}
        cvd = json.dumps(cvdoc)
        clauses = ['cv.bucketName == "x1"', 'cv.bucketName == "x2"', "cv.retentionDays == 7", "cv.retentionDays == 9", "cv.logGroup == 1", "cv.logGroup == 2",
                   "cv.log_group == 1", "cv.\"Bucket-Name\" exists", "cv.plain == 0", "cv.Retention_Days == 7",
                   "cv.onlySnake == 1", "cv.onlyKebab == 1", "cv.onlyTitle == 1", "cv.onlyTrain == 1", "cv.onlyPascal == 1"]
        singles = ["rule n%d {\n    %s\n}\n" % (i, c) for i, c in enumerate(clauses)]
        multi = [clauses[10], clauses[0], clauses[11], clauses[4]]
        base_text = "".join(singles) + "rule m {\n" + "".join("    %s\n" % c for c in multi) + "}\n"
        base, _ = status_map(ctx, base_text, cvd)
        if not isinstance(base, dict):
            ctx.inconclusive("case-variant-base-" + str(base))
        else:
            rngc = ctx.rng("cv")
            chosen = [tuple(reversed(range(len(singles))))]
            for _ in range(25 if ctx.quick else 400):
                pm = list(range(len(singles)))
                rngc.shuffle(pm)
                chosen.append(tuple(pm))
            variants_cv = [("permute-rules", "".join(singles[i] for i in pm) + "rule m {\n" + "".join("    %s\n" % c for c in multi) + "}\n") for pm in chosen]
            variants_cv += [("permute-lines", "".join(singles) + "rule m {\n" + "".join("    %s\n" % multi[i] for i in pm) + "}\n") for pm in _it.permutations(range(len(multi)))]
            variants_cv += [("rules-after", "rule m {\n" + "".join("    %s\n" % c for c in multi) + "}\n" + "".join(singles)), ("same-again", base_text)]
            for label, text in variants_cv:
                st, _ = status_map(ctx, text, cvd)
                ctx.res.cases += 1
                ctx.res.counts["case_variant_key_variants"] += 1
                if not isinstance(st, dict):
                    ctx.inconclusive("case-variant-variant-" + str(st))
                    continue
                why = compare(base, st, ("same",))
                if why:
                    ctx.violation("order:case-variant-keys:%s" % label, "%s\n--- base\n%s--- variant\n%s--- doc %s" % (why, base_text, text, cvd),
                                  {"base": base_text, "variant": text, "data": cvd, "rel": ["same"]})
                else:
                    ctx.res.distinct.add(("case-variant-keys", label))
    # ---- rules that reference each other in a cycle: every ordering must meet the same fate (today: the cyclic-reference error, which makes
    #      the group fall under the proviso); statuses that depend on which member the evaluator reaches first would show here
    if ctx.mine(2):
        import itertools as _it2
        cyc_doc = json.dumps({"x": 1, "y": 2})
        templates = [["rule a {\n    b or x == 2\n}\n", "rule b {\n    not a\n}\n", "rule c {\n    b\n}\n"],
                     ["rule a {\n    not b\n}\n", "rule b {\n    a or y == 2\n}\n", "rule c when a {\n    x == 1\n}\n", "rule d {\n    not b or c\n}\n"],
                     ["rule a when not b {\n    x == 1\n}\n", "rule b {\n    a or x == 1\n}\n", "rule c {\n    a\n    b\n}\n"]]
        for ti, tpl in enumerate(templates):
            outs = []
            for pm in _it2.permutations(range(len(tpl))):
                text = "".join(tpl[i] for i in pm)
                st, _ = status_map(ctx, text, cyc_doc)
                ctx.res.cases += 1
                outs.append((pm, text, st))
            errs = [o for o in outs if not isinstance(o[2], dict)]
            if errs:
                ctx.res.counts["cyclic_reference_groups_under_proviso"] += 1
                ctx.res.distinct.add(("cycle", ti, "error"))
                continue
            base_pm, base_text, base_st = outs[0]
            for pm, text, st in outs[1:]:
                why = compare(base_st, st, ("same",))
                if why:
                    ctx.violation("order:cyclic-references", "%s\n--- base\n%s--- variant\n%s" % (why, base_text, text),
                                  {"base": base_text, "variant": text, "data": cyc_doc, "rel": ["same"]})
                    break
            else:
                ctx.res.distinct.add(("cycle", ti, "same"))
    # ---- nested parameterised rules: the same inner call reached twice from one outer call with different arguments, in either line order
    if ctx.mine(3):
        pdoc = json.dumps({"five": 5, "fifty": 50, "l": [1, 2, 30], "m": {"a": 5, "b": 50}})
        heads = "rule inner(v) {\n    %v <= 10\n}\nrule mid(x) {\n    inner(%x)\n}\nrule mid2(x, y) {\n    inner(%x) or inner(%y)\n}\n"
        bodies = [("mid(%a)", "mid(%b)"), ("mid(%a)", "not mid(%b)"), ("mid2(%a, %a)", "mid2(%b, %b)"), ("inner(%a)", "mid(%b)")]
        tops = ["outer(five, fifty)", "outer(fifty, five)", "outer(m.a, m.b)", "outer(l[0], l[2])"]
        for bi, (l1, l2) in enumerate(bodies):
            for top in tops:
                texts = [heads + "rule outer(a, b) {\n    %s\n    %s\n}\nrule top {\n    %s\n}\n" % (x, y, top) for x, y in ((l1, l2), (l2, l1))]
                sts = [status_map(ctx, tx, pdoc)[0] for tx in texts]
                ctx.res.cases += 2
                ctx.res.counts["nested_call_order_pairs"] += 1
                if not all(isinstance(x, dict) for x in sts):
                    ctx.inconclusive("nested-call-gadget-error")
                    continue
                why = compare(sts[0], sts[1], ("same",))
                if why:
                    ctx.violation("order:nested-parameterised-calls", "%s\n--- base\n%s--- variant\n%s" % (why, texts[0], texts[1]),
                                  {"base": texts[0], "variant": texts[1], "data": pdoc, "rel": ["same"]})
                else:
                    ctx.res.distinct.add(("nested-calls", bi, top, sts[0].get("top")))
    # ---- several type blocks for ONE resource type, some of which skip for every resource: line order within a rule, rule order within a file
    if ctx.mine(4):
        import itertools as _it3
        tdoc = json.dumps({"Resources": {"b1": {"Type": "AWS::S3::Bucket", "Properties": {"a": 1}}, "b2": {"Type": "AWS::S3::Bucket", "Properties": {"a": 2}},
                                         "t1": {"Type": "AWS::SNS::Topic", "Properties": {"a": 1}}}})
        blocks = ["AWS::S3::Bucket {\n        when Properties.zz exists {\n            Properties.a == 1\n        }\n    }",
                  "AWS::S3::Bucket {\n        Properties.a == 99\n    }", "AWS::S3::Bucket {\n        Properties.a >= 1\n    }",
                  "AWS::SNS::Topic {\n        when Properties.zz exists {\n            Properties.a == 5\n        }\n    }", "AWS::SNS::Topic {\n        Properties.a == 1\n    }"]
        for combo in ([0, 1], [0, 2], [3, 4], [0, 1, 2], [0, 3, 4, 2]):
            base_text = "rule one {\n" + "".join("    %s\n" % blocks[i] for i in combo) + "}\n" + "".join("rule r%d {\n    %s\n}\n" % (i, blocks[i]) for i in combo)
            base, _ = status_map(ctx, base_text, tdoc)
            ctx.res.cases += 1
            if not isinstance(base, dict):
                ctx.inconclusive("type-block-group-error")
                continue
            perms = list(_it3.permutations(combo))[1:7]
            for pm in perms:
                for text, label in (("rule one {\n" + "".join("    %s\n" % blocks[i] for i in pm) + "}\n" + "".join("rule r%d {\n    %s\n}\n" % (i, blocks[i]) for i in combo), "permute-lines"),
                                    ("rule one {\n" + "".join("    %s\n" % blocks[i] for i in combo) + "}\n" + "".join("rule r%d {\n    %s\n}\n" % (i, blocks[i]) for i in pm), "permute-rules"),
                                    ("".join("rule r%d {\n    %s\n}\n" % (i, blocks[i]) for i in pm) + "rule one {\n" + "".join("    %s\n" % blocks[i] for i in pm) + "}\n", "both")):
                    st, _ = status_map(ctx, text, tdoc)
                    ctx.res.cases += 1
                    ctx.res.counts["type_block_order_variants"] += 1
                    if not isinstance(st, dict):
                        ctx.inconclusive("type-block-group-error")
                        continue
                    why = compare(base, st, ("same",))
                    if why:
                        ctx.violation("order:type-blocks-of-one-type:%s" % label, "%s\n--- base\n%s--- variant\n%s" % (why, base_text, text), {"base": base_text, "variant": text, "data": tdoc, "rel": ["same"]})
                    else:
                        ctx.res.distinct.add(("type-blocks", tuple(combo), label))
    # ---- keys and rule names that begin like a keyword (`origin`, `order_ok`, `ORDER`, `notes`, `inner`, `whenever`, `somekey`): a clause
    #      line that starts with them, after any other clause, in every line order
    if ctx.mine(5):
        import itertools as _it4
        kdoc = json.dumps({"listener": {"port": 443}, "origin": {"protocol": "http"}, "ORDER": 1, "notes": "x", "inner": 5, "whenever": True, "somekey": 1, "letter": "a"})
        klines = ["listener.port == 443", 'origin.protocol == "https"', "ORDER == 2", "order_ok", 'notes == "y"', "inner == 6", "whenever == false", "somekey == 2", 'letter == "b"']
        for combo in ([0, 1], [0, 2], [0, 3], [0, 4], [0, 5], [0, 7], [0, 8], [0, 1, 2, 3]):      # (not #6: a key that begins with `when` does not parse at all)
            outs = []
            for pm in _it4.permutations(combo):
                text = "rule order_ok {\n    listener.port == 1\n}\nrule r {\n" + "".join("    %s\n" % klines[i] for i in pm) + "}\n"
                st, _ = status_map(ctx, text, kdoc)
                ctx.res.cases += 1
                outs.append((text, st))
            ctx.res.counts["keyword_prefix_line_groups"] += 1
            if any(not isinstance(st, dict) for _t, st in outs):
                ctx.inconclusive("keyword-like-group-error (proviso)")      # e.g. a key that begins with `when` is rejected in every order
                continue
            for text, st in outs[1:]:
                why = compare(outs[0][1], st, ("same",))
                if why:
                    ctx.violation("order:keyword-like-names", "%s\n--- base\n%s--- variant\n%s" % (why, outs[0][0], text), {"base": outs[0][0], "variant": text, "data": kdoc, "rel": ["same"]})
                    break
            else:
                ctx.res.distinct.add(("keyword-like", tuple(combo)))
    nbase = 90 if ctx.quick else 2600
    vorders = set()
    rpatterns = set()
    for t in range(nbase):
        doc = gen.gen_doc(rng)
        f = gen.gen_file(rng, doc, o)
        if rng.random() < 0.3:
            # alternatives: a second definition of an existing rule name, both guarded by `when` (documented idiom); references to the name
            # must see the same status however often and wherever they occur
            plain = [i for i, r in enumerate(f["rules"]) if not r.get("params")]
            ri = rng.choice(plain)
            env = {"refs": [], "vars": [], "prules": [], "allow_ref": False}
            alt = gen.clone(f["rules"][ri])
            alt["when"] = gen.gen_cond(rng, doc, o, 0, env)
            if not f["rules"][ri].get("when") or rng.random() < 0.5:
                f["rules"][ri]["when"] = gen.gen_cond(rng, doc, o, 0, env)
            if rng.random() < 0.5 and len(alt["body"]) > 1:
                alt["body"] = alt["body"][:-1]
            f["rules"].insert(ri + (0 if rng.random() < 0.5 else 1), alt)
            users = [r for r in f["rules"] if r["name"] != alt["name"] and not r.get("params")]
            if users and rng.random() < 0.7:
                rng.choice(users)["body"].append([{"t": "ref", "neg": rng.random() < 0.3, "name": alt["name"], "msg": None}])
            ctx.res.counts["bases_with_alternative_definitions"] += 1
        if rng.random() < 0.3:
            # an alternative that raises an evaluation error for some element (`this empty` on a number) inside a query block: with the
            # error-raising ordering the proviso applies (group inconclusive); if no ordering raises, all orderings must still agree
            blocks = [a for kind, cnf in gen.iter_cnfs(f) for line in cnf for a in line if a["t"] == "block" and a["body"]]
            if blocks:
                b = rng.choice(blocks)
                line = rng.choice(b["body"])
                line.insert(rng.randrange(len(line) + 1), gen.clause([["this"]], "empty", None, opneg=rng.random() < 0.5))
                ctx.res.counts["bases_with_error_prone_alternative"] += 1
        if rng.random() < 0.35:
            # a clause that SKIPs for every element (it compares an empty selection) as an extra line of the filters: a conjunction ignores
            # SKIP lines wherever they stand, so the selection must not depend on the position of that line
            filters = [cnf for kind, cnf in gen.iter_cnfs(f) if kind == "filter"]
            if filters:
                f["lets"] = list(f["lets"]) + [["zznone", ["somequery", [["key", "zz_nokey"]]]]]
                for cnf in filters:
                    cnf.insert(rng.randrange(len(cnf) + 1), [gen.clause([["var", "zznone"]], "==", ["lit", 1])])
                ctx.res.counts["bases_with_skipping_filter_line"] += 1
        docs = [json.dumps(doc)]
        for _ in range(1 if ctx.quick else 2):
            docs.append(json.dumps(gen.gen_doc(rng)))
        base_text = gen.pfile(f)
        vs = list(variants(rng, f))
        for d in docs:
            base, bres = status_map(ctx, base_text, d, events=True)
            if not isinstance(base, dict):
                ctx.inconclusive("base-" + base)
                continue
            hv, hr = history(bres)
            group_err = False
            results = []
            for label, g, rel in vs:
                text = gen.pfile(g)
                st, res = status_map(ctx, text, d, events=True)
                if not isinstance(st, dict):
                    group_err = True
                    break
                results.append((label, text, rel, st, res))
            if group_err:
                ctx.inconclusive("variant-error (proviso)")
                continue
            for label, text, rel, st, res in results:
                ctx.res.cases += 1
                v2, r2 = history(res)
                names_v = tuple(sorted(set(e.split("|")[2] for e in v2)))
                vorders.add((names_v, tuple(e.split("|")[2] + e.split("|")[3][0] for e in v2)))
                rpatterns.add(tuple(e.split("|")[1] + ":" + e.split("|")[2] for e in r2))
                ctx.res.counts["variants:" + label] += 1
                if v2 != hv or r2 != hr:
                    ctx.res.counts["history_changed"] += 1
                why = compare(base, st, rel)
                if why:
                    ctx.violation("order:%s" % label, "%s\n--- base\n%s--- variant\n%s--- doc %s" % (why, base_text, text, d[:400]),
                                  {"base": base_text, "variant": text, "data": d, "rel": list(rel)})
                else:
                    ctx.res.distinct.add((label, tuple(sorted(set(st.values())))))
            if results and len(ctx.res.samples) < 2:
                ctx.sample({"base_rules": base_text[:600], "statuses": base, "variants": [r[0] for r in results]})
    ctx.res.extra["var_resolve_orderings"] = {hash(x) for x in vorders}
    ctx.res.extra["rule_status_patterns"] = {hash(x) for x in rpatterns}


def replay(case, w):
    class C:
        pass
    c = C()
    c.w = w
    base, _ = status_map(c, case["base"], case["data"])
    var, _ = status_map(c, case["variant"], case["data"])
    if not isinstance(base, dict) or not isinstance(var, dict):
        return True, "evaluation error (proviso)"
    why = compare(base, var, tuple(case["rel"]))
    return why is None, why or "equal"


def main(tier, seed):
    t0 = time.time()
    core.build()
    res = core.run_shards(shard, seed, tier, "C04")
    nvo = len(res.extra.pop("var_resolve_orderings", ()))
    nrp = len(res.extra.pop("rule_status_patterns", ()))
    res.extra["distinct_var_resolve_orderings"] = nvo
    res.extra["distinct_rule_status_hit_miss_patterns"] = nrp
    floor = {"cases": (res.cases, 3000), "distinct_var_resolve_orderings": (nvo, 50),
             "distinct_rule_status_patterns": (nrp, 20), "history_changed": (res.counts["history_changed"], 500)}
    return core.finish("C04", tier, seed, res, t0,
                       rule="random base programs (shared variables, named references, type blocks) x 2-3 documents x up to ~25 transforms "
                            "(permute lines / alternatives / rules, duplicate line / alternative / rule, early and late reference); "
                            "distinct = (transform, set of statuses) plus distinct memoisation histories observed through the hooks",
                       floor=floor,
                       assumptions=["groups in which any variant raises an evaluation error are inconclusive (the property's proviso)",
                                    "key-capture variables and multiple definitions of one rule name are not generated"])
