"""C08 - no input crashes the tool; bad input is reported as an error.

Three workloads through validate (files + payload), test, parse-tree, rulegen and run_checks:
 (1) grammar-generated rule texts mutated at byte/token level x documents,
 (2) parser-accepted ADVERSARIAL programs (filters after this/[n]/filters, literal and function LHS, unary
     operators on literal variables, mismatched function arguments, empty argument sets, huge indices,
     self- and mutually-recursive rules, wrong arity, backtracking regexes) x generated and mutated documents,
 (3) mutated documents, test specs, payload JSON and parameter files (anchors, tags, multi-docs, BOM, non-string
     keys, deep nesting, non-UTF-8).
Events: panic (captured by catch_unwind with file:line), worker death (abort, stack overflow, exit from inside),
watchdog expiry (re-run alone with a 10x budget before it counts), CLI exit status outside {0,1,5,7,19,255},
memory-checker reports. A rejected rules file must name `line N at column M` and yield no rule status.
"""
import json
import os
import re
import shutil
import subprocess
import time

from .. import core, gen, obs

NEED_CLI = True
DOCUMENTED_EXITS = {0, 1, 5, 7, 19, 255, 2}   # 2: clap usage error
LINECOL = re.compile(r"at line \d+ at column \d+")

DICT = ["rule", "when", "let", "or", "OR", "|OR|", "not", "!", "some", "this", "keys", "in", "IN", "exists", "empty", "is_string", "is_list", "is_struct",
        "==", "!=", "<=", ">=", "<", ">", "<<", ">>", "%", "|", "r[", "r(", "[", "]", "{", "}", "(", ")", "[*]", ".*", ".", ",", ":", ":=", "=", "#", "\n", " ",
        "'", '"', "/", "\\", "null", "true", "2147483648", "-2147483649", "9223372036854775808", "-0", "1e999", "1.", ".5", "é", "﻿", "\x00", "\r", "\t",
        "&a", "*a", "!Ref", "!!int", "?", "- ", "| ", "> ", "AWS::S3::Bucket", "count(", "join(", "substring(", "regex_replace(", "now()", "parse_epoch("]


def mutate(rng, text, n=None):
    b = list(text)
    for _ in range(n or rng.randint(1, 3)):
        if not b:
            b = list(rng.choice(DICT))
            continue
        op = rng.randrange(7)
        i = rng.randrange(len(b))
        if op == 0:
            b = b[:i]
        elif op == 1:
            j = min(len(b), i + rng.randint(1, 12))
            del b[i:j]
        elif op == 2:
            j = min(len(b), i + rng.randint(1, 12))
            b[i:i] = b[i:j]
        elif op == 3:
            b[i:i] = list(rng.choice(DICT))
        elif op == 4:
            j = rng.randrange(len(b))
            b[i], b[j] = b[j], b[i]
        elif op == 5:
            b[i] = rng.choice(DICT)[0:1] or " "
        else:
            other = rng.choice(SPLICE)
            k = rng.randrange(len(other))
            b[i:] = list(other[k:])
    return "".join(b)


SPLICE = ["rule a when b exists { c.d[*] == 1 or e in [1,2] <<m>> }\n", "let x = Resources.*[ Type == 'T' ]\nrule r { %x.Properties.P !empty }\n",
          "AWS::S3::Bucket { Properties { a == /x/ } }\n", "rule p(a, b) { %a == %b }\nrule q { p(1, x.y) }\n", "a: [1, {b: c}]\n", '{"a": {"b": [1, 2, {"c": null}]}}']


# ------------------------------------------------------------------ adversarial but grammatical programs

def adversarial(rng, doc):
    """returns (shape class, rules text)"""
    o = gen.Opts(types=True, calls=True, msgs=True, this_filter=True, keys_filters=True, some_lets=True, max_rules=3, max_lines=3)
    f = gen.gen_file(rng, doc, o)
    keys = [k for k in (doc if isinstance(doc, dict) else {})] or ["a"]
    k = rng.choice(keys)
    if isinstance(doc, dict) and "resource_changes" in doc and rng.random() < 0.8:
        # Terraform-plan-shaped document: aim below, beside and above change.after so the Terraform console view is driven
        k = rng.choice(["resource_changes[*].change.after.%s" % rng.choice(gen.KEYS[:6]), "resource_changes[*].type", "resource_changes[*].change.before.a",
                        "resource_changes.*.change.after.*", "resource_changes[0].address", "resource_changes[*].change.after"])
    elif isinstance(doc, dict) and isinstance(doc.get("Resources"), dict) and rng.random() < 0.7:
        # template-shaped document: aim at resource properties so the template-aware console reporters are driven
        props = sorted({p for r_ in doc["Resources"].values() if isinstance(r_, dict) and isinstance(r_.get("Properties"), dict) for p in r_["Properties"]})
        k = "Resources.*.Properties.%s" % rng.choice(props) if props else "Resources.*.Type"
    shapes = {
        "filter-after-this": "rule x { this[ %s exists ] !empty }" % k,
        "filter-after-index": "rule x { %s[0][ this exists ] exists }" % k,
        "filter-after-filter": "rule x { %s[ this exists ][ this exists ] exists }" % k,
        "filter-after-keys": "rule x { %s[ keys == /a/ ][ this exists ] exists }" % k,
        "literal-variable-lhs": "let v = %s\nrule x { %%v == 5\n %%v exists\n %%v !empty\n %%v is_string }" % gen.glit(rng.choice([1, "s", [1, 2], True, 1.5])),
        "function-lhs": "rule x { let c = count(%s)\n %%c == 99\n %%c !exists\n %%c empty }" % k,
        "unary-on-number": "rule x { %s.* empty }" % k,
        "function-arg-types": "rule x { let s = substring(%s, \"a\", true)\n %%s exists }" % k,
        "function-arg-types2": "rule x { let s = join(%s, 5)\n %%s exists\n let r = regex_replace(%s, 1, 2)\n %%r exists }" % (k, k),
        "empty-argument-set": "rule x { let e = %s[ this == 'none-such' ]\n let s = substring(%s, %%e, %%e)\n %%s exists\n let j = join(%s, %%e)\n %%j exists\n let r = regex_replace(%s, %%e, %%e)\n %%r exists }" % (k, k, k, k),
        "unresolved-argument": "rule x { let s = substring(%s, zz.y, 3)\n %%s exists }" % k,
        "huge-index": "rule x { %s[2147483647] exists\n %s[-2147483648] exists\n %s.2147483648 exists }" % (k, k, k),
        # an index right after an interpolated key (`a.%keys[n]` picks the n-th key name)
        "index-after-interpolated-key": ("let kk = [\"a\", \"b\", \"Resources\"]\nrule x {\n this.%%kk[-2147483648] exists or %s exists\n}\nrule y {\n this.%%kk[2147483647] !exists\n this.%%kk[-1] exists or this.%%kk[0] exists\n}\n"
                                         "rule z {\n this.%%kk[3] exists or this.%%kk[-3] exists\n}") % k,
        "self-recursive": "rule x {\n x\n}",
        "mutually-recursive": "rule x {\n y\n}\nrule y when x {\n %s exists\n}" % k,
        "recursive-via-when": "rule x when x {\n %s exists\n}" % k,
        "dup-name-self-cycle": "rule x when %s !exists {\n zz exists\n}\nrule x when %s exists {\n x\n}\nrule x when zz exists {\n x\n}\nrule u {\n x\n}" % (k, k),
        "dup-name-mutual-cycle": ("rule y when %s !exists {\n zz exists\n}\nrule y when %s exists {\n x\n}\n"
                                  "rule x when %s !exists {\n zz exists\n}\nrule x when %s exists {\n y\n}\nrule u when x {\n y\n}") % (k, k, k, k),
        "dup-name-cycle-via-call": "rule p(a) {\n x\n %%a exists\n}\nrule x when zz exists {\n %s exists\n}\nrule x {\n p(%s)\n}" % (k, k),
        "cyclic-variables": "let va = %%vb\nlet vb = %%va\nrule x {\n %%va exists\n %s exists\n}" % k,
        "self-referential-variable": "rule x {\n let va = %%va\n %%va !empty or %s exists\n}\nrule y {\n %s {\n  let vb = %%vb.z\n  %%vb exists\n }\n}" % (k, k),
        "cyclic-variable-via-function": "let va = count(%%va)\nlet vb = join(%%vc, \",\")\nlet vc = to_upper(%%vb)\nrule x {\n %%va exists\n}\nrule y {\n %%vb exists or %s exists\n}" % k,
        "cyclic-variable-via-filter": "let va = %s[ this == %%va ]\nrule x {\n %%va !empty\n}" % k,
        "recursive-parameterised-rule": "rule f(p) {\n f(%%p)\n}\nrule x {\n f(%s)\n}" % k,
        "mutually-recursive-parameterised-rules": "rule f(p) {\n %%p exists\n g(%%p)\n}\nrule g(q) {\n f(%%q) or %%q !exists\n}\nrule x {\n not g(%s)\n}" % k,
        "nan-and-infinity-operands": ("rule x {\n let n = parse_float(\"NaN\")\n %%n == 1.5\n %%n < 2.0 or %%n >= 0.5\n %%n in [1.5, 2.5]\n %%n == %%n\n not %%n != 0.0\n %%n in r[0.0, 1.0]\n"
                                      " let i = parse_float(\"-inf\")\n %%i > 1.0 or %%i == %%i\n %%i in r(0.0, 5.0]\n %s == %%n\n %s < %%i\n}") % (k, k),
        "nan-document": "rule x {\n a == 1.5\n a < 2.0 or a >= 0.5\n l[*] in [1.5, 2.5]\n a == l[0]\n some l[*] == a\n m.k <= 0.0\n a in r[0.0, 1.0]\n l[*] != a\n}",
        # quoted keys that begin with the variable sigil (`%`), keys that look like other tokens
        "quoted-key-percent": "rule x {\n %s.\"%% used\" exists or %s exists\n}\nrule y {\n %s['%%'] == 3\n}\nrule z {\n \"%%\" exists\n %s.\"%%1a\" !exists\n}" % (k, k, k, k),
        "quoted-key-odd-tokens": "rule x {\n %s.\"*\" exists or %s.\"[*]\" exists\n %s.\"this\" !exists or %s.\"keys\" exists\n}\nrule y {\n \"\" exists or %s.\"\" exists\n %s.\"a.b\" exists or %s.\" \" exists\n}" % (k, k, k, k, k, k, k),
        # filters whose members are not plain clauses: `when` blocks, query blocks, calls of parameterised rules, references (all grammatical)
        "filter-with-block-members": ("rule pf(v) {\n %%v exists\n}\nrule helper {\n %s exists\n}\n"
                                      "rule a {\n %s[ when this exists { this exists } ] exists or %s exists\n Resources.*[ when Properties.Tags exists { Type == 'AWS::S3::Bucket' } ].Properties.BucketName exists or %s exists\n}\n"
                                      "rule b {\n Resources.*[ Properties { a exists } ].Type exists or %s !exists\n this.*[ pf(this) ] exists or %s exists\n}\n"
                                      "let fl = Resources.*[ when Type exists { Type == 'T' } ]\nrule c {\n %%fl.zz.yy exists or %s exists\n zz_missing.more[ when a exists { b { c exists } } ].d !exists\n}\n"
                                      "rule d {\n this.*[ helper ] exists or %s exists\n}") % (k, k, k, k, k, k, k, k),
        "wrong-arity": "rule p(a, b) { %%a == %%b }\nrule x { p(%s) }" % k,
        "unknown-param-rule": "rule x { nosuch(%s) }" % k,
        "unknown-variable": "rule x { %%nosuch == 1 }",
        "backtracking-regex": "rule x { %s == /^(a+)+$/\n %s == /^(a+)+\\1b$/\n %s == /(?=a)(?<=b)x/ }" % (k, k, k),
        # the same patterns where equality (not the `==` operator) does the matching: inside `in` lists, list / map literals, key filters
        "backtracking-regex-in-list": ("let long = \"aaaaaaaaaaaaaaaaaaaaaaaaaaaaaaaaaaaaaaaaaaaaaaaaaa!\"\nrule x {\n %%long in [ /^(a+)+\\1?$/, \"q\" ]\n}\n"
                                       "rule y {\n %s in [ /^(a+)+\\1?$/, \"q\" ] or %s exists\n}\nrule z {\n %%long not in [ /^(a+)+\\1b$/ ]\n}\n"
                                       "rule w {\n let ll = [\"aaaaaaaaaaaaaaaaaaaaaaaaaaaaaaaaaaaaaaaaaaaaaaaaaaaaaa!\"]\n %%ll == [ /^(a+)+\\1?$/ ]\n}") % (k, k),
        "substring-multibyte": "rule x { let s = substring(%s, 1, 2)\n %%s exists\n let t = substring(\"é日本\", 1, 3)\n %%t == \"x\" }" % k,
        "parse-functions": "rule x { let a = parse_int(%s)\n %%a exists\n let b = parse_char(%s)\n %%b exists\n let c = parse_epoch(%s)\n %%c exists\n let d = json_parse(%s)\n %%d exists }" % (k, k, k, k),
        "range-odd": "rule x { %s in r[5,1]\n %s in r(0,0)\n %s == r[a,z] }" % (k, k, k),
        "deep-literal": "rule x { %s == %s }" % (k, "[" * 40 + "1" + "]" * 40),
        "key-capture": "rule x { %s[ cap | this exists ] exists\n %%cap !empty\n %s[ cap ] exists }" % (k, k),
        "not-empty-block": "rule x { %s !empty { this exists } }" % k,
        "query-rhs-unresolved": "rule x { %s == zz.y.w\n %s in zz\n zz.y < %s }" % (k, k, k),
        "odd-custom-messages": "rule x { %s == \"__no__\" << ; >>\n %s !exists <<>>\n %s == 1 << >>\n %s in [\"__no__\"] <<;;>>\n %s is_null <<\n multi\n line ; with; semis\n>>\n zz.y == 2 <<a;>> }" % (k, k, k, k, k),
        "odd-rule-names": "rule default { %s exists }\nrule x1_ { default }\nrule X { not x1_ or %s == 0 <<é ü>> }" % (k, k),
        "now-and-epoch": "rule x { let n = now()\n %n > 0\n let e = parse_epoch(\"2024-01-01T00:00:00Z\")\n %e < %n }",
    }
    if rng.random() < 0.5:
        name = rng.choice(sorted(shapes))
        return name, shapes[name] + "\n"
    return "generated", gen.pfile(f)


BAD_DOCS = {
    "comment-only": "# nothing\n", "anchor-alias": "a: &x [1, 2]\nb: *x\n", "merge-key": "a: &d {k: 1}\nb:\n  <<: *d\n", "multi-doc": "a: 1\n---\nb: 2\n",
    "bom": "﻿a: 1\n", "int-key": "1: x\n", "list-key": "? [a]\n: 1\n", "tagged": "a: !Ref x\nb: !!int z\nc: !Unknown [1]\n", "only-marker": "---\n", "dots": "...\n",
    "deep-flow": "[" * 64 + "]" * 64, "deep-map": "".join("%sk:\n" % ("  " * i) for i in range(64)) + "  " * 64 + "v\n", "nul": "a: \x00\n", "cr": "a: 1\rb: 2\r",
    "empty": "", "blank": "   \n", "scalar": "just a string", "long-line": "a: " + "é" * 200 + "\n", "unterminated": '{"a": [1, 2', "huge-int": "a: 99999999999999999999999\n",
    "float-forms": "a: [.inf, -.inf, .nan, 1e999, 0x1F, 0o17, 1_000]\n", "bad-multibyte-start": "é" * 60 + ": [\n", "bad-multibyte-odd": "a" + "é" * 60 + ": [\n", "bad-multibyte-3": "ab" + "日" * 40 + ": {\n",
}


def run_all_channels(ctx, rtext, dtext, cls, ovf=None):
    """one (rules, data) pair through the in-process front ends; returns list of (channel, result)"""
    out = []
    if ovf is not None:
        # the same front ends in the worker compiled with arithmetic-overflow checks
        out.append(("run_checks-verbose+ovf", ovf.run({"k": "rc", "data": dtext, "rules": rtext, "verbose": True})))
        out.append(("payload+ovf", ovf.run({"k": "cli", "argv": ["validate", "--payload", "-S", "all"], "stdin": json.dumps({"rules": [rtext], "data": [dtext]})})))
        out.append(("payload-structured+ovf", ovf.run({"k": "cli", "argv": ["validate", "--payload", "--structured", "-S", "none", "-o", "junit"], "stdin": json.dumps({"rules": [rtext], "data": [dtext]})})))
        out.append(("validate-files+ovf", ovf.run({"k": "cli", "argv": ["validate", "-r", "{S}/r.guard", "-d", "{S}/d.json", "-S", "all"], "files": {"r.guard": rtext, "d.json": dtext}})))
        return out
    out.append(("run_checks", ctx.w.run({"k": "rc", "data": dtext, "rules": rtext, "verbose": False})))
    out.append(("run_checks-verbose", ctx.w.run({"k": "rc", "data": dtext, "rules": rtext, "verbose": True})))
    out.append(("payload", ctx.w.run({"k": "cli", "argv": ["validate", "--payload", "-S", "all"], "stdin": json.dumps({"rules": [rtext], "data": [dtext]})})))
    out.append(("payload-structured", ctx.w.run({"k": "cli", "argv": ["validate", "--payload", "--structured", "-S", "none", "-o", "sarif"], "stdin": json.dumps({"rules": [rtext], "data": [dtext]})})))
    out.append(("validate-files", ctx.w.run({"k": "cli", "argv": ["validate", "-r", "{S}/r.guard", "-d", "{S}/d.yaml", "-S", "all", "-t", "CFNTemplate", "-v"], "files": {"r.guard": rtext, "d.yaml": dtext}})))
    out.append(("parse-tree", ctx.w.run({"k": "cli", "argv": ["parse-tree", "-p"], "stdin": rtext})))
    # the other documented rules-file extension, as a file and picked up from a directory, through the structured reporters
    fmt = ["json", "junit", "sarif", "yaml"][len(rtext) % 4]
    out.append(("validate-ruleset-" + fmt, ctx.w.run({"k": "cli", "argv": ["validate", "-r", "{S}/x.ruleset", "-d", "{S}/d.json", "--structured", "-S", "none", "-o", fmt], "files": {"x.ruleset": rtext, "d.json": dtext}})))
    out.append(("validate-rules-dir", ctx.w.run({"k": "cli", "argv": ["validate", "-r", "{S}/rules", "-d", "{S}/d.json", "-S", "all"], "files": {"rules/a.guard": rtext, "rules/b.ruleset": rtext, "rules/notes.txt": "x", "d.json": dtext}})))
    return out


def judge(ctx, channel, res, case, cls, rules_parse=None):
    ctx.res.cases += 1
    ctx.res.extra.setdefault("channels", set()).add(channel)
    sig = core.crash_signature(res)
    if sig == "hang":
        # watchdog: re-run alone with a 10x budget before it counts
        job = case.get("job")
        r2 = ctx.w.run(job, timeout=200) if job else res
        if core.crash_signature(r2) == "hang":
            ctx.violation("hang:%s:%s" % (channel, cls), "no result within 200 s", case)
        else:
            ctx.inconclusive("slow")
        return None
    if sig:
        ctx.violation("%s" % sig, "[%s, %s] %s: %s" % (channel, cls, sig, (res.get("err") or "")[:200]), case)
        return None
    ctx.res.distinct.add((channel, cls, res.get("r"), res.get("code")))
    return res


def shard(ctx):
    rng = ctx.rng("c08")
    ovf = core.Worker(binary=core.OVF_BIN)
    try:
        _shard(ctx, rng, ovf)
    finally:
        ovf.close()


def _shard(ctx, rng, ovf):
    # ------------------------------------------------ (1) mutated rule texts
    n1 = 260 if ctx.quick else 9000
    parse_err_positions = set()
    still_parse = 0
    for t in range(n1):
        doc = gen.gen_doc(rng)
        dtext = json.dumps(doc)
        base = gen.pfile(gen.gen_file(rng, doc, gen.Opts(types=True, calls=True, msgs=True, keys_filters=True, some_lets=True)))
        rtext = mutate(rng, base)
        if t % 4 == 0:
            # text in another script after the (likely) syntax error: comments and custom messages; whatever excerpt a diagnostic shows of the
            # rest of the file, it is cut somewhere inside this
            rtext += "\n" + " " * rng.randint(0, 5) + "# " + "日本語のコメント、設定値の説明。" * rng.randint(4, 14) + "\nrule zz_tail {\n    a exists <<メッセージ：値が不正です — " + "é" * rng.randint(0, 7) + "ü>>\n}\n"
            if rng.random() < 0.5:
                rtext = rtext.replace("{", "{ == ", 1) if rng.random() < 0.5 else ("rule broken { a == }\n" + rtext)
            ctx.res.counts["mutated_rules_with_non_ascii_tail"] += 1
        case = {"kind": "pair", "rules": rtext, "data": dtext}
        pt = judge(ctx, "parse-tree", ctx.w.run({"k": "cli", "argv": ["parse-tree", "-p"], "stdin": rtext}), case, "mutated-rules")
        parses = pt is not None and pt.get("r") == "ok"
        still_parse += 1 if parses else 0
        for channel, res in run_all_channels(ctx, rtext, dtext, "mutated-rules")[:4]:
            r = judge(ctx, channel, res, case, "mutated-rules")
            if r is None:
                continue
            ptmsg = (pt.get("emsg", "") + pt.get("err", "")) if pt is not None else ""
            if pt is not None and not parses and pt.get("r") == "err" and not re.search(r"Pars(er|ing) [Ee]rror", ptmsg):
                # parse-tree failed for another reason than the grammar (e.g. an infinite float literal cannot be written as JSON): a diagnostic error, allowed
                ctx.res.counts["parse_tree_non_grammar_errors"] += 1
            elif pt is not None and not parses and pt.get("r") == "err":
                # whole-file rejection with a position, and no rule evaluated
                m = LINECOL.search(ptmsg)
                if m:
                    parse_err_positions.add(m.group(0))
                else:
                    ctx.violation("parse-error-without-position", "rules file rejected without naming line and column: %s" % (pt.get("emsg") or pt.get("err"))[:200], case)
                if channel == "run_checks" and r.get("r") == "ok" and r.get("out", "").strip():
                    ctx.violation("rejected-file-evaluated", "parse-tree rejects the rules file but run_checks evaluated it", case)
                if channel == "payload" and r.get("r") == "ok" and re.search(r"\b(PASS|FAIL|SKIP)\b", r.get("out", "")):
                    ctx.violation("rejected-file-evaluated", "parse-tree rejects the rules file but validate printed rule statuses", case)
    ctx.res.counts["mutated_rules"] += n1
    ctx.res.counts["mutated_rules_still_parse"] += still_parse
    ctx.res.extra["parse_error_positions"] = parse_err_positions

    # ------------------------------------------------ (2) adversarial grammatical programs x documents
    n2 = 320 if ctx.quick else 12000
    for t in range(n2):
        doc = gen.gen_doc(rng)
        if rng.random() < 0.3:
            doc = {"a": "a" * 40, "l": [{"x": 1}, {"x": "é"}], "m": {"k": {"z": [1, 2]}}, "s": "héllo wörld", "n": 5}
        elif rng.random() < 0.3:
            doc = gen.gen_cfn_doc(rng, nres=rng.randint(1, 3))
        elif rng.random() < 0.35:
            doc = gen.gen_tf_doc(rng)
        dtext = json.dumps(doc) if rng.random() < 0.7 else mutate(rng, json.dumps(doc), 1)
        cls, rtext = adversarial(rng, doc)
        if cls == "nan-document":
            # not-a-number and infinities as the YAML loaders type them (and the `NaN` token in a .json file read by validate)
            dtext = rng.choice(["a: nan\nl: [NaN, inf, 1.5, .nan]\nm: {k: -inf}\n", '{"a": NaN, "l": [NaN, 1.5, inf], "m": {"k": -inf}}', "a: .NaN\nl:\n  - .inf\n  - 2.5\nm:\n  k: -.inf\n"])
        case = {"kind": "pair", "rules": rtext, "data": dtext, "shape": cls}
        ctx.res.counts["shape:" + cls] += 1
        for channel, res in run_all_channels(ctx, rtext, dtext, cls) + run_all_channels(ctx, rtext, dtext, cls, ovf):
            judge(ctx, channel, res, dict(case, channel=channel), cls)
        if t % 6 == 0:
            names = re.findall(r"^rule (\w+)\s*(?:when|\{)", rtext, re.M)
            spec = json.dumps([{"name": "c", "input": doc, "expectations": {"rules": {nm: "PASS" for nm in names[:3]}}}])
            for fmt in ([], ["-o", "json"], ["-o", "junit"], ["-v"]):
                res = ctx.w.run({"k": "cli", "argv": ["test", "-r", "{S}/r.guard", "-t", "{S}/t.json"] + fmt, "files": {"r.guard": rtext, "t.json": spec}})
                judge(ctx, "test" + "".join(fmt), res, dict(case, channel="test"), cls)

    # ------------------------------------------------ (3) hostile documents / test specs / payloads / parameter files
    rtext = "rule r {\n    this exists\n    a exists or b !exists\n}\n"
    docs3 = list(BAD_DOCS.items())
    n3 = 60 if ctx.quick else 3000
    for t in range(n3):
        d = gen.gen_doc(rng)
        txt = json.dumps(d) if rng.random() < 0.5 else "".join("%s: %s\n" % (k, json.dumps(v)) for k, v in d.items())
        docs3.append(("mutated-doc", mutate(rng, txt)))
    for idx, (name, dtext) in enumerate(docs3):
        if not ctx.mine(idx) and name != "mutated-doc":
            continue
        case = {"kind": "pair", "rules": rtext, "data": dtext, "shape": name}
        for channel, res in run_all_channels(ctx, rtext, dtext, name)[:5] + run_all_channels(ctx, rtext, dtext, name, ovf):
            judge(ctx, channel, res, dict(case, channel=channel), "doc:" + name)
        # as parameter file, as test spec, as payload envelope
        res = ctx.w.run({"k": "cli", "argv": ["validate", "-r", "{S}/r.guard", "-d", "{S}/d.json", "-i", "{S}/p.yaml"], "files": {"r.guard": rtext, "d.json": '{"zzz": 1}', "p.yaml": dtext}})
        judge(ctx, "input-params", res, dict(case, channel="input-params"), "doc:" + name)
        res = ctx.w.run({"k": "cli", "argv": ["validate", "-r", "{S}/r.guard", "-d", "{S}/d.json", "-i", "{S}/p.yaml", "--structured", "-S", "none", "-o", "json"],
                         "files": {"r.guard": rtext, "d.json": '{"zzz": 1}', "p.yaml": dtext}})
        judge(ctx, "input-params-structured", res, dict(case, channel="input-params-structured"), "doc:" + name)
        res = ctx.w.run({"k": "cli", "argv": ["test", "-r", "{S}/r.guard", "-t", "{S}/t.yaml"], "files": {"r.guard": rtext, "t.yaml": dtext}})
        judge(ctx, "test-spec", res, dict(case, channel="test-spec"), "doc:" + name)
        res = ctx.w.run({"k": "cli", "argv": ["validate", "--payload"], "stdin": dtext})
        judge(ctx, "payload-envelope", res, dict(case, channel="payload-envelope"), "doc:" + name)
        # several test files for one rules file, the hostile one before and after a well-formed one, every renderer
        good = '[{"name": "ok", "input": {"a": 1}, "expectations": {"rules": {"r": "PASS"}}}]'
        for first, second in (("r_a_tests.yaml", "r_b_tests.json"), ("r_z_tests.yaml", "r_b_tests.json")):
            fl3 = {"r.guard": rtext, "tests/" + first: dtext, "tests/" + second: good}
            fmt3 = ["json", "junit", "yaml", None][idx % 4]
            for argv3 in (["test", "-d", "{S}", "-a"], ["test", "-r", "{S}/r.guard", "-t", "{S}/tests", "-a"]):
                res = ctx.w.run({"k": "cli", "argv": argv3 + (["-o", fmt3] if fmt3 else []), "files": fl3})
                judge(ctx, "test-several-files", res, dict(case, channel="test-several-files", files=fl3, argv=argv3 + (["-o", fmt3] if fmt3 else [])), "doc:" + name)
    # ------------------------------------------------ every built-in function on unusual values (empty string, blanks, non-ASCII, long text, wrong kinds): a result
    #                                                  or a diagnostic, never a crash
    if ctx.mine(4):
        odd = ["", " ", "é", "日本", "\t", "a" * 5000, "%", "%zz", "%E9", "-", "+", ".", "1e999", "0x10", "nan", "{", "[", "null", 0, -1, 1.5, True, None, [], {}, [""], {"": ""}]
        fns = ["count(%v)", "to_upper(%v)", "to_lower(%v)", "url_decode(%v)", "parse_int(%v)", "parse_float(%v)", "parse_boolean(%v)", "parse_string(%v)", "parse_char(%v)",
               "json_parse(%v)", "join(%v, \",\")", "join(%v, \"\")", "regex_replace(%v, \"\", \"x\")", "regex_replace(%v, \"(\", \"x\")", "regex_replace(%v, \".\", \"$9\")",
               "substring(%v, 0, 1)", "substring(%v, 1, 0)", "substring(%v, 0, 99999)", "parse_epoch(%v)"]
        for vi, val in enumerate(odd):
            dtext = json.dumps({"v": val, "l": [val, val]})
            for fn in fns:
                for src in ("v", "l[*]"):
                    rtext_f = "rule f {\n    let v = %s\n    let r = %s\n    %%r exists\n    %%r !empty\n}\n" % (src, fn)
                    case = {"kind": "pair", "rules": rtext_f, "data": dtext, "shape": "function-on-odd-value"}
                    res = ctx.w.run({"k": "rc", "data": dtext, "rules": rtext_f, "verbose": False})
                    judge(ctx, "run_checks", res, dict(case, channel="run_checks"), "fn:" + fn.split("(")[0])
                    ctx.res.counts["functions_on_odd_values"] += 1
    # ------------------------------------------------ argument combinations: omitted / conflicting / unsupported options end in a usage or diagnostic error
    if ctx.mine(3):
        fl = {"r.guard": "rule r {\n    a == 1\n}\n", "d.json": '{"a": 2}', "t.json": '[{"name": "c", "input": {"a": 2}, "expectations": {"rules": {"r": "FAIL"}}}]',
              "tests/r_tests.json": '[{"name": "c", "input": {"a": 2}, "expectations": {"rules": {"r": "FAIL"}}}]', "p.json": '{"zp": 1}'}
        R, D, T = ["-r", "{S}/r.guard"], ["-d", "{S}/d.json"], ["-t", "{S}/t.json"]
        combos = [["validate"] + D, ["validate"] + R, ["validate"] + R + D + ["--payload"], ["validate"] + R + D + ["--structured"], ["validate"] + R + D + ["--structured", "-S", "all", "-o", "json"],
                  ["validate"] + R + D + ["--structured", "-S", "none"], ["validate"] + R + D + ["-o", "junit"], ["validate"] + R + D + ["-o", "sarif"], ["validate"] + R + D + ["-a", "-m"],
                  ["validate"] + R + D + ["--structured", "-S", "none", "-o", "json", "-v"], ["validate"] + R + D + ["--structured", "-S", "none", "-o", "json", "-p"],
                  ["validate"] + R + D + ["-S", "bogus"], ["validate"] + R + D + ["-t", "bogus"], ["validate"] + R + D + ["-o", "bogus"], ["validate"] + R + D + ["-i"], ["validate"] + R + D + ["-i", "{S}/nosuch.json"],
                  ["validate", "-r"] + D, ["validate", "-r", "{S}", "-d", "{S}"], ["validate", "-r", "{S}/d.json", "-d", "{S}/r.guard"], ["validate", "--payload", "-v", "-p"],
                  ["validate"] + R + D + ["-S", "pass", "-S", "fail", "-S", "none"], ["validate"] + R + D + D + R + ["-i", "{S}/p.json", "-i", "{S}/p.json"],
                  ["test"], ["test"] + R, ["test"] + T, ["test"] + R + T + ["-o", "sarif"], ["test"] + R + T + ["-o", "json", "-v"], ["test", "-d", "{S}"] + R, ["test", "-d", "{S}"] + R + T,
                  ["test", "-d", "{S}/nosuch"], ["test", "-d", "{S}/r.guard"], ["test", "-r", "{S}", "-t", "{S}"], ["test"] + R + ["-t", "{S}"], ["test", "-d", "{S}", "-a", "-m"], ["test"] + R + T + ["-a"], ["test"] + R + T + ["-m", "-o", "yaml"],
                  ["rulegen"], ["rulegen", "-t", "{S}/nosuch.json"], ["rulegen", "-t", "{S}"], ["rulegen", "-t", "{S}/r.guard"], ["rulegen", "-t", "{S}/d.json", "-o", "{S}/out.guard"],
                  ["parse-tree"], ["parse-tree", "-r", "{S}/nosuch.guard"], ["parse-tree", "-r", "{S}"], ["parse-tree", "-r", "{S}/r.guard", "-p", "-y"], ["parse-tree", "-r", "{S}/r.guard", "-o", "{S}/out.json"],
                  ["completions"], ["completions", "--shell", "bash"], ["completions", "--shell", "nosuch"], [], ["nosuch"], ["--version"], ["help"], ["validate", "--help"]]
        adir = os.path.join(core.SCRATCH, "c08-argv-%d" % os.getpid())
        try:
            for rel, content in fl.items():
                os.makedirs(os.path.dirname(os.path.join(adir, rel)), exist_ok=True)
                open(os.path.join(adir, rel), "w").write(content)
            for argv in combos:
                for stdin in ("", '{"a": 2}', '{"rules": ["rule r { a == 1 }"], "data": ["{}"]}'):
                    ctx.res.counts["argument_combinations"] += 1
                    case = {"kind": "argv", "argv": argv, "files": fl, "stdin": stdin}
                    if argv and argv[0] == "rulegen":
                        # rulegen may call process::exit itself: only as a real process
                        code, out, err = core.run_cli([a.replace("{S}", adir) for a in argv], stdin=stdin.encode(), timeout=60)
                        ctx.res.cases += 1
                        if code is None or code < 0 or code in (101, 134, 139):
                            m = re.search(r"panicked at ([^:\s]+:\d+)", err.decode("utf-8", "replace"))
                            ctx.violation("panic@" + m.group(1) if m else "argv:rulegen:exit-%s" % code, "[process rulegen %s] exit %s: %s" % (argv, code, err.decode("utf-8", "replace")[-300:]), case)
                        else:
                            ctx.res.distinct.add(("argv", "rulegen", code))
                        continue
                    res = ctx.w.run({"k": "cli", "argv": argv, "files": fl, "stdin": stdin})
                    judge(ctx, "argv", res, case, "argv:" + (argv[0] if argv else "none"))
        finally:
            shutil.rmtree(adir, ignore_errors=True)
    # ------------------------------------------------ real processes: exit statuses, rulegen (may exit from inside), non-UTF-8 files
    sdir = os.path.join(core.SCRATCH, "c08-%d-%d" % (os.getpid(), ctx.shard))
    os.makedirs(sdir, exist_ok=True)
    try:
        n4 = 25 if ctx.quick else 1200
        for t in range(n4):
            doc = gen.gen_cfn_doc(rng, nres=rng.randint(0, 4))
            if rng.random() < 0.3:
                for r_ in doc.get("Resources", {}).values():
                    if rng.random() < 0.5:
                        r_.pop("Type", None)
            if rng.random() < 0.35:
                # resources whose parts have the wrong kind: a Type that is no string (a reference, a number, null, a list), Properties that are
                # no map, a resource that is no map - next to well-formed ones
                res_ = doc.setdefault("Resources", {})
                res_["odd%d" % t] = {"Type": rng.choice([{"Ref": "T"}, 5, None, ["AWS::S3::Bucket"], True, ""]), "Properties": {"a": 1, "b": [1]}}
                if rng.random() < 0.5:
                    res_["odd%db" % t] = rng.choice([{"Type": "AWS::S3::Bucket", "Properties": [1, 2]}, {"Type": "AWS::S3::Bucket", "Properties": "x"}, [1], "str", None,
                                                    {"Type": "AWS::S3::Bucket", "Properties": {"": 1, "k": {"": {}}}}])
            ttext = json.dumps(doc) if rng.random() < 0.6 else mutate(rng, json.dumps(doc), 1)
            p = os.path.join(sdir, "t.json")
            mode = "wb"
            data = ttext.encode("utf-8", "replace")
            if rng.random() < 0.1:
                data = data[:len(data) // 2] + b"\xff\xfe\xc3" + data[len(data) // 2:]
            open(p, mode).write(data)
            cls, rtext = adversarial(rng, doc)
            rp = os.path.join(sdir, "r.guard")
            open(rp, "w").write(rtext)
            for argv in (["rulegen", "-t", p], ["validate", "-r", rp, "-d", p], ["validate", "-r", rp, "-d", p, "--structured", "-S", "none", "-o", "junit"],
                         ["validate", "-r", p, "-d", rp], ["parse-tree", "-r", p], ["test", "-r", rp, "-t", p]):
                code, out, err = core.run_cli(argv, timeout=120)
                ctx.res.cases += 1
                ctx.res.extra.setdefault("channels", set()).add("process:" + argv[0])
                case = {"kind": "process", "argv": [a.replace(sdir, "{S}") for a in argv], "template_hex": data.hex(), "rules": rtext}
                if code is None:
                    ctx.violation("hang:process:%s" % argv[0], "no exit within 120 s", case)
                elif code < 0 or code in (101, 134, 139) or code not in DOCUMENTED_EXITS:
                    m = re.search(r"panicked at ([^:\s]+:\d+)", err.decode("utf-8", "replace"))
                    where = m.group(1).replace(core.REPO + "/", "") if m else ("stack-overflow" if b"overflowed its stack" in err else "exit-%s" % code)
                    sig = ("panic@" + where) if m else where
                    ctx.violation(sig, "[process %s] exit %s: %s" % (argv[0], code, err.decode("utf-8", "replace")[-300:]), case)
                else:
                    ctx.res.distinct.add(("process", argv[0], code))
    finally:
        shutil.rmtree(sdir, ignore_errors=True)


# ------------------------------------------------------------------ crash sweep: other monitors' workloads under the overflow-checked worker

SWEEP = {"quick": ["c18", "c13"], "thorough": ["c18", "c13", "c01", "c03", "c10", "c15", "c11", "c17"]}


def _sweep(modname, ctx):
    """run another property's quick workload on the overflow-checked worker; its semantic verdicts are ignored here
    (they are that property's business), every job that ends in a panic / abort / signal / hang is a C08 event"""
    import importlib
    mod = importlib.import_module("gvlib.props." + modname)
    crashes = []
    plain_run = ctx.w.run

    def watched(job, timeout=None):
        res = plain_run(job, timeout)
        ctx.res.counts["sweep_jobs"] += 1
        sig = core.crash_signature(res)
        if sig and sig != "hang":
            crashes.append((sig, job, (res.get("err") or "")[:300]))
        return res
    ctx.w.run = watched
    ctx.violation = lambda sig, what, rp: None
    ctx.inconclusive = lambda why: None
    ctx.sample = lambda s, limit=3: None
    try:
        mod.shard(ctx)
    finally:
        ctx.w.run = plain_run
    ctx.res.violations = []
    ctx.res.samples = []
    ctx.res.cases = 0
    ctx.res.distinct = set()
    ctx.res.extra = {}
    keep = core.Counter()
    keep["sweep_jobs"] = ctx.res.counts["sweep_jobs"]
    ctx.res.counts = keep
    ctx.res.inconclusive = core.Counter()
    for sig, job, err in crashes:
        core.Ctx.violation(ctx, sig, "[overflow-checked worker, workload of %s] %s: %s" % (modname.upper(), sig, err), {"kind": "job", "job": job, "workload": modname})


def replay(case, w):
    if case["kind"] == "job":
        ovf = core.Worker(binary=core.OVF_BIN)
        try:
            sigs = [core.crash_signature(x.run(case["job"])) for x in (w, ovf)]
        finally:
            ovf.close()
        return not any(sigs), "release worker: %s, overflow-checked worker: %s" % tuple(s or "ok" for s in sigs)
    if case["kind"] == "argv" and case["argv"] and case["argv"][0] == "rulegen":
        return True, "rulegen argument cases are only run as real processes by the check itself"
    if case["kind"] == "argv":
        sig = core.crash_signature(w.run({"k": "cli", "argv": case["argv"], "files": case["files"], "stdin": case["stdin"]}))
        return not sig, sig or "no crash"
    if case["kind"] == "process":
        sdir = os.path.join(core.SCRATCH, "c08-replay-%d" % os.getpid())
        os.makedirs(sdir, exist_ok=True)
        try:
            open(os.path.join(sdir, "t.json"), "wb").write(bytes.fromhex(case["template_hex"]))
            open(os.path.join(sdir, "r.guard"), "w").write(case["rules"])
            code, out, err = core.run_cli([a.replace("{S}", sdir) for a in case["argv"]], timeout=120)
            ok = code is not None and code >= 0 and code in DOCUMENTED_EXITS and code not in (101, 134, 139)
            return ok, "exit %s" % code
        finally:
            shutil.rmtree(sdir, ignore_errors=True)

    class Ctx(core.Ctx):
        pass
    res = core.ShardResult()
    c = Ctx(w, 0, 1, 1, "quick", res, {"prop": "C08"})
    bad = []
    ovf = core.Worker(binary=core.OVF_BIN) if os.path.exists(core.OVF_BIN) else None
    try:
        for channel, r in run_all_channels(c, case["rules"], case["data"], "replay") + (run_all_channels(c, case["rules"], case["data"], "replay", ovf) if ovf else []):
            s = core.crash_signature(r)
            if s:
                bad.append("%s:%s" % (channel, s))
    finally:
        if ovf:
            ovf.close()
    names = re.findall(r"^rule (\w+)\s*(?:when|\{)", case["rules"], re.M)
    try:
        doc = json.loads(case["data"])
        spec = json.dumps([{"name": "c", "input": doc, "expectations": {"rules": {nm: "PASS" for nm in names[:3]}}}])
        for fmt in ([], ["-o", "json"], ["-o", "junit"], ["-v"]):
            r = w.run({"k": "cli", "argv": ["test", "-r", "{S}/r.guard", "-t", "{S}/t.json"] + fmt, "files": {"r.guard": case["rules"], "t.json": spec}})
            s = core.crash_signature(r)
            if s:
                bad.append("test:%s" % s)
    except ValueError:
        pass
    for argv, files in ((["validate", "-r", "{S}/r.guard", "-d", "{S}/d.json", "-i", "{S}/p.yaml"], {"r.guard": case["rules"], "d.json": '{"zzz": 1}', "p.yaml": case["data"]}),
                        (["validate", "-r", "{S}/r.guard", "-d", "{S}/d.json", "-i", "{S}/p.yaml", "--structured", "-S", "none", "-o", "json"], {"r.guard": case["rules"], "d.json": '{"zzz": 1}', "p.yaml": case["data"]}),
                        (["test", "-r", "{S}/r.guard", "-t", "{S}/t.yaml"], {"r.guard": case["rules"], "t.yaml": case["data"]})):
        r = w.run({"k": "cli", "argv": argv, "files": files})
        s = core.crash_signature(r)
        if s:
            bad.append("%s:%s" % (argv[0], s))
    return not bad, "crashes: %s" % bad


def memcheck(ctx_seed, tier):
    """valgrind memcheck on the release worker for a small shard of hostile documents through the unsafe YAML loader;
    returns (reports, jobs run) - only invalid read/write/free and definite leaks count"""
    import random
    rng = random.Random("c08-memcheck:%s" % ctx_seed)
    jobs = []
    for name, d in BAD_DOCS.items():
        jobs.append({"k": "load", "which": "validate", "text": d})
    for t in range(40 if tier == "quick" else 400):
        d = gen.gen_doc(rng)
        txt = "".join("%s: %s\n" % (k, json.dumps(v)) for k, v in d.items())
        jobs.append({"k": "load", "which": "validate", "text": mutate(rng, txt) if t % 2 else txt})
        if t % 4 == 0:
            jobs.append({"k": "cli", "argv": ["validate", "--payload", "--structured", "-S", "none", "-o", "json"],
                         "stdin": json.dumps({"rules": ["rule r { this exists }"], "data": [txt]})})
            jobs.append({"k": "ffi", "data": txt, "rules": "rule r { a exists }", "verbose": False})
    w = core.Worker(wrapper=["valgrind", "--quiet", "--error-exitcode=99", "--undef-value-errors=no", "--errors-for-leak-kinds=definite", "--leak-check=full",
                             "--log-file=%s" % os.path.join(core.SCRATCH, "vg-%d.log" % os.getpid())], timeout=300)
    n = 0
    try:
        for j in jobs:
            r = w.run(j, timeout=300)
            n += 1
            if r.get("r") in ("crash", "hang"):
                break
    finally:
        w.close()
    logp = os.path.join(core.SCRATCH, "vg-%d.log" % os.getpid())
    reports = []
    try:
        txt = open(logp).read()
        for m in re.finditer(r"==\d+== (Invalid (?:read|write|free)[^\n]*|[\d,]+ bytes in [\d,]+ blocks are definitely lost[^\n]*)\n((?:==\d+==    [^\n]*\n)+)", txt):
            frames = [l for l in m.group(2).split("\n") if "/repo/" in l or "cfn_guard" in l]
            reports.append((m.group(1)[:60], frames[0].strip() if frames else m.group(2).split("\n")[0].strip()))
        os.unlink(logp)
    except FileNotFoundError:
        pass
    return reports, n


def main(tier, seed):
    t0 = time.time()
    core.build(need_cli=True, need_ovf=True)
    res = core.run_shards(shard, seed, tier, "C08", extra={"timeout": 25.0})
    import functools
    for modname in SWEEP[tier]:
        r = core.run_shards(functools.partial(_sweep, modname), seed, "quick", modname.upper(), extra={"worker_bin": core.OVF_BIN, "timeout": 25.0})
        res.counts["sweep_jobs"] += r.counts["sweep_jobs"]
        res.counts["sweep_jobs:" + modname] = r.counts["sweep_jobs"]
        res.violations += r.violations
        res.errors += r.errors
    os.makedirs(core.SCRATCH, exist_ok=True)
    reports, njobs = memcheck(seed, tier)
    res.counts["memcheck_jobs"] = njobs
    res.counts["memcheck_reports"] = len(reports)
    for kind, frame in reports:
        res.violations.append({"sig": "memcheck:%s" % re.sub(r"0x[0-9A-Fa-f]+", "", frame)[:80], "what": "valgrind memcheck: %s at %s" % (kind, frame), "replay": {"kind": "memcheck"}})
    pos = res.extra.pop("parse_error_positions", set())
    res.extra["distinct_parse_error_positions"] = len(pos)
    shapes = [k for k in res.counts if k.startswith("shape:")]
    mr, sp = res.counts["mutated_rules"], res.counts["mutated_rules_still_parse"]
    floor = {"cases": (res.cases, 5000), "adversarial_shapes": (len(shapes), 38), "mutated_rules_still_parsing_percent": (int(100 * sp / max(1, mr)), 5),
             "distinct_parse_error_positions": (len(pos), 100), "channels": (len(res.extra.get("channels", set())), 18), "memcheck_jobs": (njobs, 40),
             "overflow_checked_sweep_jobs": (res.counts["sweep_jobs"], 2500)}
    return core.finish("C08", tier, seed, res, t0,
                       rule="(1) grammar-generated rule texts with 1-3 byte/token mutations x documents; (2) 41 adversarial grammatical shapes + generated programs with "
                            "this-filters/keys filters/functions x generated and mutated documents; (3) 22 hostile documents + mutated documents as data, parameter "
                            "file, test spec and payload envelope; (4) real processes incl. rulegen and non-UTF-8 files; valgrind memcheck on the YAML loader / payload / "
                            "FFI paths; (5) crash sweep: the quick workloads of C18 and C13 (thorough: also C01, C03, C10, C15, C11, C17) replayed on the "
                            "arithmetic-overflow-checked worker, only panics/aborts/signals counted; distinct = (channel, input class, result kind, exit code)",
                       floor=floor,
                       assumptions=["release profile is the product under test", "a watchdog expiry is re-run alone with a 200 s budget before it counts as a hang",
                                    "valgrind runs with --undef-value-errors=no (hashbrown SIMD loads); only invalid accesses and definite leaks count"])
