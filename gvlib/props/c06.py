"""C06 - exit codes of validate and test faithfully encode the outcome.

Real `cfn-guard` processes (the shipped binary, hooks off) are run on scenarios built from finite
classes: 1..3 rules files from {passing, failing, skipping, broken, empty, comment-only, eval-error}
x 1..3 data files from {compliant, non-compliant, malformed, empty, non-map root} x invocation modes.
The expected exit class comes from a small classifier over the scenario (what the generator built,
with per-pair verdicts confirmed by singleton library runs), never from the tool's own batch output.
"""
import itertools
import json
import os
import shutil
import time

from .. import core, gen, obs

NEED_CLI = True
RKINDS = ["passing", "failing", "skipping", "conditional", "broken", "empty", "comment", "evalerr", "nonutf8"]
DKINDS = ["compliant", "noncompliant", "irrelevant", "malformed", "emptyfile", "nonmap"]
# every candidate is also rejected by an independent YAML parser (PyYAML) - checked at import time
MALFORMED = ['{"a": [1, 2', "a: [1, 2\nb: }\n", "key: : :\n  - x: [\n", '{"a" 1}', "a: 'unterminated\n", "- a\nb: 1\n", "a:\n\t- 1\n  b: [\n"]


def _really_malformed(t):
    import yaml
    try:
        yaml.safe_load(t)
        return False
    except Exception:
        return True


MALFORMED = [t for t in MALFORMED if _really_malformed(t)]
VMODES = ["plain", "o-json", "o-yaml", "s-json", "s-yaml", "s-junit", "s-sarif", "payload", "payload-s", "stdin", "dirs", "verbose",
          "mixed-fd", "mixed-df", "mixed-fd-s", "mixed-df-s", "print-json", "print-json-verbose", "payload-print-json"]


def instance(rng):
    ka = rng.choice(["a", "n", "c"])
    good = rng.choice([1, 5, 7])
    bad = good + 1
    comp = {ka: good, "b": "x", "l": [1, 2]}
    nonc = {ka: bad, "b": "x", "l": [1, 2]}

    def ser(d):
        if rng.random() < 0.5:
            return json.dumps(d), ".json"
        return "".join("%s: %s\n" % (k, json.dumps(v)) for k, v in d.items()), ".yaml"
    rules = {
        "passing": 'rule p%d {\n    b == "x"\n    l[*] >= 1\n}\n',
        "failing": "rule f%%d {\n    %s == %d\n}\n" % (ka, good),
        "skipping": "rule s%%d when zz exists {\n    %s == %d\n}\n" % (ka, good),
        # PASS / FAIL / SKIP depending on the data file: applies only to documents that have the key at all
        "conditional": "rule c%%d when %s exists {\n    %s == %d\n}\n" % (ka, ka, good),
        "broken": rng.choice(["rule b%d { a == }\n", "rule { a == 1 }\n", "rule b%d { a == 1\n", "let x\nrule b%d { a == 1 }\n",
                              "rule b%d when { a == 1 }\n", "rule b%d { a == 1 } }\n", "rule b%d { a === 1 }\n"]),
        "empty": "",
        "comment": "# nothing here\n",
        "evalerr": "rule e%%d {\n    %s empty\n}\n" % ka,
        # a rules file that cannot be read as text (bytes that are not UTF-8; written with surrogateescape)
        "nonutf8": "rule u%d {\n    b == \"x\"\n}\n# \udcff\udcfe\n",
    }
    data = {
        "compliant": ser(comp), "noncompliant": ser(nonc), "irrelevant": ser({"b": "x", "l": [1, 2], "other": True}),
        "malformed": (rng.choice(MALFORMED), rng.choice([".json", ".yaml"])),
        "emptyfile": (rng.choice(["", "   \n"]), rng.choice([".json", ".yaml"])),
        "nonmap": (rng.choice(["5", "[1, 2]", '"str"']), ".json"),
    }
    return rules, data


def rule_text(rules, kind, i):
    t = rules[kind]
    return t % i if "%d" in t else t


def pair_status(w, rtext, dtext, cache):
    key = (rtext, dtext)
    if key in cache:
        return cache[key]
    res = w.run({"k": "rc", "data": dtext, "rules": rtext, "verbose": False})
    kind, st, fs = obs.rc_statuses(res)
    if kind == "ok":
        r = fs
    elif kind == "empty":
        r = "SKIP"
    elif core.crash_signature(res):
        r = "crash"
    else:
        r = "error"
    cache[key] = r
    return r


def classify(rk, dk, pair):
    """expected exit class for validate: 0 | 19 | 5 | 'error' | 'nonzero'"""
    if any(d in ("malformed", "emptyfile") for d in dk):
        return "error"
    sts = [pair[(i, j)] for i, r in enumerate(rk) if r not in ("broken", "empty", "comment", "nonutf8") for j in range(len(dk))]
    if "crash" in sts:
        return None
    parse_err = "broken" in rk
    fail = "FAIL" in sts
    if "error" in sts:
        return "error"
    if "nonutf8" in rk:
        # an unreadable rules file: never a successful exit; next to failing pairs the failure status may win
        return "nonzero" if (fail or parse_err) else "error"
    if not parse_err:
        return 19 if fail else 0
    return "nonzero" if fail else 5


def matches(exp, code):
    if code is None or code < 0 or code in (101, 134, 139):
        return None            # crash / signal: C08 territory
    if exp == "error":
        return code not in (0, 19)
    if exp == "nonzero":
        return code != 0
    return code == exp


def argv_for(mode, rpaths, dpaths, rtexts, dtexts, sdir):
    """returns (argv, stdin) or None when the mode does not apply"""
    base = ["validate"]
    rargs = [x for p in rpaths for x in ("-r", p)]
    dargs = [x for p in dpaths for x in ("-d", p)]
    if mode == "plain":
        return base + rargs + dargs, None
    if mode == "print-json":
        return base + rargs + dargs + ["-p", "-S", "none"], None
    if mode == "print-json-verbose":
        return base + rargs + dargs + ["--print-json", "-v", "-S", "all"], None
    if mode == "payload-print-json":
        if any("\udcff" in t for t in rtexts):
            return None
        return base + ["--payload", "-p"], json.dumps({"rules": rtexts, "data": dtexts})
    if mode == "verbose":
        return base + rargs + dargs + ["-v", "-S", "all"], None
    if mode == "o-json":
        return base + rargs + dargs + ["-o", "json"], None
    if mode == "o-yaml":
        return base + rargs + dargs + ["-o", "yaml", "-S", "none"], None
    if mode.startswith("s-"):
        return base + rargs + dargs + ["--structured", "-S", "none", "-o", mode[2:]], None
    if mode in ("payload", "payload-s") and any("\udcff" in t for t in rtexts):
        return None           # a payload is JSON text: bytes that are not UTF-8 cannot be carried in it
    if mode == "payload":
        return base + ["--payload"], json.dumps({"rules": rtexts, "data": dtexts})
    if mode == "payload-s":
        return base + ["--payload", "--structured", "-S", "none", "-o", "json"], json.dumps({"rules": rtexts, "data": dtexts})
    if mode == "stdin":
        if len(dtexts) != 1:
            return None
        return base + rargs, dtexts[0]
    if mode == "dirs":
        return base + ["-r", os.path.join(sdir, "rules"), "-d", os.path.join(sdir, "data")], None
    if mode.startswith("mixed-"):
        # explicit files and directories side by side in one option list: the first file by path, the others through a directory
        # (`--rules rule1.guard --rules ./rules-dir` is the help text's own example), in both orders
        if len(rpaths) < 2 and len(dpaths) < 2:
            return None
        rr = (["-r", rpaths[0], "-r", os.path.join(sdir, "rulesrest")] if "fd" in mode else ["-r", os.path.join(sdir, "rulesrest"), "-r", rpaths[0]]) if len(rpaths) >= 2 else rargs
        dd = (["-d", dpaths[0], "-d", os.path.join(sdir, "datarest")] if "fd" in mode else ["-d", os.path.join(sdir, "datarest"), "-d", dpaths[0]]) if len(dpaths) >= 2 else dargs
        return base + rr + dd + (["--structured", "-S", "none", "-o", "json"] if mode.endswith("-s") else []), None
    raise ValueError(mode)


def write_scenario(sdir, rtexts, dtexts, dexts):
    shutil.rmtree(sdir, ignore_errors=True)
    os.makedirs(os.path.join(sdir, "rules"))
    os.makedirs(os.path.join(sdir, "data"))
    rp, dp = [], []
    for i, t in enumerate(rtexts):
        p = os.path.join(sdir, "rules", "r%d.guard" % i)
        open(p, "w", errors="surrogateescape").write(t)
        rp.append(p)
    for i, t in enumerate(dtexts):
        p = os.path.join(sdir, "data", "d%d%s" % (i, dexts[i]))
        open(p, "w").write(t)
        dp.append(p)
    # all files but the first once more, in directories of their own (the mixed-* modes)
    os.makedirs(os.path.join(sdir, "rulesrest"))
    os.makedirs(os.path.join(sdir, "datarest"))
    for i, t in enumerate(rtexts[1:], 1):
        open(os.path.join(sdir, "rulesrest", "r%d.guard" % i), "w", errors="surrogateescape").write(t)
    for i, t in enumerate(dtexts[1:], 1):
        open(os.path.join(sdir, "datarest", "d%d%s" % (i, dexts[i])), "w").write(t)
    return rp, dp


def shard(ctx):
    rng = ctx.rng("c06")
    sdir = os.path.join(core.SCRATCH, "c06-%d-%d" % (os.getpid(), ctx.shard))
    cache = {}
    combos = []
    for nr in (1, 2, 3):
        for rk in itertools.product(RKINDS, repeat=nr):
            for nd in (1, 2, 3):
                for dk in itertools.product(DKINDS, repeat=nd):
                    combos.append((rk, dk))
    rng2 = __import__("random").Random("c06-order:%s" % ctx.seed)
    rng2.shuffle(combos)
    # exhaustive over single/pair tuples in thorough; quick: every (rules kind, position) x (data kind, position) appears, sampled combos
    small = [c for c in combos if len(c[0]) <= 2 and len(c[1]) <= 2]
    big = [c for c in combos if not (len(c[0]) <= 2 and len(c[1]) <= 2)]
    one_rules_file = [c for c in small if len(c[0]) == 1]         # every single rules file x every ordered pair of data kinds: always run
    rest_small = [c for c in small if len(c[0]) != 1]
    chosen = (one_rules_file + rest_small[:160] + big[:160]) if ctx.quick else (small + big[:6000])
    try:
        for idx, (rk, dk) in enumerate(chosen):
            if not ctx.mine(idx):
                continue
            rules, data = instance(rng)
            rtexts = [rule_text(rules, k, i) for i, k in enumerate(rk)]
            dtexts = [data[k][0] for k in dk]
            dexts = [data[k][1] for k in dk]
            pair = {}
            for i, k in enumerate(rk):
                if k in ("broken", "empty", "comment", "nonutf8"):
                    continue
                for j, d in enumerate(dk):
                    if d in ("malformed", "emptyfile"):
                        continue
                    pair[(i, j)] = pair_status(ctx.w, rtexts[i], dtexts[j], cache)
            exp = classify(rk, dk, pair)
            if exp is None:
                ctx.inconclusive("crash-in-singleton")
                continue
            rp, dp = write_scenario(sdir, rtexts, dtexts, dexts)
            modes = VMODES if not ctx.quick else rng.sample(VMODES, 5)
            if ctx.quick and (len(rk) >= 2 or len(dk) >= 2) and not any(m_.startswith("mixed-") for m_ in modes):
                modes = modes + [rng.choice(["mixed-fd", "mixed-df", "mixed-fd-s", "mixed-df-s"])]
            for mode in modes:
                av = argv_for(mode, rp, dp, rtexts, dtexts, sdir)
                if av is None:
                    continue
                argv, stdin = av
                code, out, err = core.run_cli(argv, stdin=stdin.encode() if stdin is not None else None, timeout=60)
                ctx.res.cases += 1
                if mode in ("plain", "verbose", "dirs", "payload") and idx % 3 == 0:
                    code2, _o2, _e2 = core.run_cli(argv, stdin=stdin.encode() if stdin is not None else None, timeout=60, env=dict(os.environ, CLICOLOR_FORCE="1", TERM="xterm-256color"))
                    ctx.res.counts["validate_runs_with_colour_forced"] += 1
                    if code2 != code and code is not None and code2 is not None:
                        ctx.violation("validate:exit-depends-on-colour-settings:%s" % mode, "validate exits %s by default and %s with CLICOLOR_FORCE=1" % (code, code2),
                                      {"kind": "validate", "mode": mode, "rules": rtexts, "data": dtexts, "exts": dexts, "rkinds": list(rk), "dkinds": list(dk), "expected": exp})
                m = matches(exp, code)
                ctx.res.extra.setdefault("exit_class_x_mode", set()).add("%s:%s" % (exp, mode))
                case = {"kind": "validate", "mode": mode, "rules": rtexts, "data": dtexts, "exts": dexts, "rkinds": list(rk), "dkinds": list(dk), "expected": exp}
                if m is None:
                    ctx.inconclusive("crash-exit-%s" % code)
                    continue
                ctx.res.distinct.add((mode, str(exp), code, len(rk), len(dk)))
                if not m:
                    posf = [i for i, k in enumerate(rk) if k == "failing"]
                    ctx.violation("validate:%s:expected-%s-got-%s" % (mode, exp, code),
                                  "validate mode=%s rules=%s data=%s: exit %s, expected %s\nstderr: %s" % (mode, rk, dk, code, exp, err.decode("utf-8", "replace")[:300]), case)
                elif len(ctx.res.samples) < 3:
                    ctx.sample({"mode": mode, "rules_kinds": rk, "data_kinds": dk, "exit": code, "expected": exp})
                # in-process result must agree with the process exit status
                if rng.random() < 0.15 and mode not in ("stdin",):
                    sub = {"{S}": sdir}
                    r = ctx.w.run({"k": "cli", "argv": argv, "stdin": stdin or ""})
                    if r.get("r") in ("ok", "err"):
                        ctx.res.counts["inprocess_compared"] += 1
                        if r["code"] != code:
                            ctx.violation("validate:inprocess-vs-process:%s" % mode, "in-process result %s vs process exit %s (%s)" % (r["code"], code, argv), case)
            # missing paths
            if idx % 10 == 0:
                for argv in (["validate", "-r", os.path.join(sdir, "nope.guard"), "-d", dp[0]], ["validate", "-r", rp[0], "-d", os.path.join(sdir, "nope.json")],
                             ["validate", "-r", rp[0], "-d", dp[0], "--structured", "-S", "none", "-o", "json", "-i", os.path.join(sdir, "nope.json")]):
                    code, out, err = core.run_cli(argv)
                    ctx.res.cases += 1
                    ctx.res.extra.setdefault("exit_class_x_mode", set()).add("error:missing-path")
                    if matches("error", code) is False:
                        ctx.violation("validate:missing-path:got-%s" % code, "missing path gives exit %s: %s" % (code, argv), {"kind": "argv", "argv": argv, "expected": "error"})

            # unusable option combinations are errors too: never the exit code of a verdict
            if idx % 10 == 5:
                R, D = ["-r", rp[0]], ["-d", dp[0]]
                for argv in (["validate"] + R + D + ["--structured"], ["validate"] + R + D + ["--structured", "-S", "all", "-o", "json"], ["validate"] + R + D + ["-o", "junit"],
                             ["validate"] + R + D + ["-o", "sarif"], ["validate", "-r"] + D, ["validate"] + D, ["validate"] + R + D + ["-a", "-m"],
                             ["validate"] + R + D + ["--structured", "-S", "none", "-o", "json", "-v"], ["validate"] + R + D + ["-S", "bogus"],
                             ["test"] + R, ["test", "-t", dp[0]], ["test"] + R + ["-t", dp[0], "-o", "sarif"], ["test"] + R + ["-t", dp[0], "-o", "json", "-v"]):
                    code, out, err = core.run_cli(argv)
                    ctx.res.cases += 1
                    ctx.res.extra.setdefault("exit_class_x_mode", set()).add("error:illegal-arguments")
                    ctx.res.distinct.add(("illegal-arguments", argv[0], len(argv), code))
                    if matches("error", code) is False:
                        ctx.violation("%s:illegal-arguments:got-%s" % (argv[0], code), "unusable option combination gives exit %s: %s" % (code, argv[1:]), {"kind": "argv", "argv": argv, "expected": "error"})

        # ------------------------------------------------------------------ test command: one rule name declared twice with another rule between
        if ctx.mine(1):
            split = "rule tagged {\n    x == 1\n}\nrule sized {\n    y exists\n}\nrule tagged when zz exists {\n    x == 1\n}\n"
            adjacent = "rule tagged {\n    x == 1\n}\nrule tagged when zz exists {\n    x == 1\n}\nrule sized {\n    y exists\n}\n"
            for rname, rtxt in (("split", split), ("adjacent", adjacent)):
                for exp_word, want in (("SKIP", 7), ("FAIL", 0), ("PASS", 7)):
                    shutil.rmtree(sdir, ignore_errors=True)
                    os.makedirs(os.path.join(sdir, "t", "tests"))
                    open(os.path.join(sdir, "t", "rr.guard"), "w").write(rtxt)
                    open(os.path.join(sdir, "t", "tests", "rr_tests.json"), "w").write(json.dumps([{"name": "c", "input": {"x": 2, "y": 1}, "expectations": {"rules": {"tagged": exp_word, "sized": "PASS"}}}]))
                    for fmt in ("plain", "json", "junit"):
                        argv = ["test", "-d", os.path.join(sdir, "t")] + ([] if fmt == "plain" else ["-o", fmt])
                        code, out, err = core.run_cli(argv)
                        ctx.res.cases += 1
                        ctx.res.counts["test_double_definition_runs"] += 1
                        if matches(want, code) is None:
                            ctx.inconclusive("crash-exit-%s" % code)
                        elif not matches(want, code):
                            ctx.violation("test:double-definition:%s:%s:expected-%s-got-%s" % (rname, fmt, want, code),
                                          "a rule name declared twice (%s) evaluates to [FAIL, SKIP]; expectation %s: exit %s, expected %s" % (rname, exp_word, code, want),
                                          {"kind": "argv-files", "argv_tail": ["-d", "{T}"] + ([] if fmt == "plain" else ["-o", fmt]), "rules": rtxt, "expectation": exp_word, "expected": want})
                        else:
                            ctx.res.distinct.add(("test-double-definition", rname, exp_word, fmt, code))
        # ------------------------------------------------------------------ test command
        ntest = 60 if ctx.quick else 1500
        for t in range(ntest):
            rules, data = instance(rng)
            comp, nonc = data["compliant"][0], data["noncompliant"][0]
            rtext = rule_text(rules, "passing", 0) + rule_text(rules, "failing", 0) + rule_text(rules, "skipping", 0)
            names = ["p0", "f0", "s0"]
            ncases = rng.randint(1, 4)
            inputs = [rng.choice(["compliant", "noncompliant"]) for _ in range(ncases)]
            truth = [{"p0": "PASS", "f0": "PASS" if k == "compliant" else "FAIL", "s0": "SKIP"} for k in inputs]
            scen = rng.choice(["all-match", "mismatch", "mismatch", "bad-testfile", "broken-rules", "bad-expectation-word"])
            exps = [dict(tr) for tr in truth]
            for e in exps:
                for nme in list(e):
                    if rng.random() < 0.2 and len(e) > 1:
                        del e[nme]      # rule without expectation: never a failure
            if scen == "mismatch":
                ci = rng.randrange(ncases)
                if not exps[ci]:
                    exps[ci] = dict(truth[ci])
                nme = rng.choice(list(exps[ci]))
                exps[ci][nme] = rng.choice([s for s in ("PASS", "FAIL", "SKIP") if s != truth[ci][nme]])
            specs = []
            for i in range(ncases):
                d = json.loads(comp) if inputs[i] == "compliant" and comp.lstrip().startswith("{") else None
                if d is None:
                    import yaml
                    d = yaml.safe_load(comp if inputs[i] == "compliant" else nonc)
                specs.append({"name": "case%d" % i, "input": d, "expectations": {"rules": exps[i]}})
            ttext = json.dumps(specs, indent=1)
            if scen == "bad-testfile":
                ttext = rng.choice(["- name: x\n  input: {a: 1\n", '[{"name": "x", "input": 1}]', "just: a map\n"])
            if scen == "bad-expectation-word":
                specs[0]["expectations"]["rules"] = {"p0": "MAYBE"}
                ttext = json.dumps(specs, indent=1)
            if scen == "broken-rules":
                rtext = rule_text(rules, "broken", 0)
            exp = {"all-match": 0, "mismatch": 7}.get(scen, "nonzero")
            shutil.rmtree(sdir, ignore_errors=True)
            os.makedirs(os.path.join(sdir, "t", "tests"))
            rpath = os.path.join(sdir, "t", "rr.guard")
            tpath = os.path.join(sdir, "t", "tests", "rr_tests.json" if scen != "bad-testfile" else "rr_tests.yaml")
            open(rpath, "w").write(rtext)
            open(tpath, "w").write(ttext)
            # a directory with 2-3 rules files: the scenario file at a random position among files whose expectations all match
            k = rng.randint(2, 3)
            pos = rng.randrange(k)
            stems = sorted(rng.sample(["a_first", "b2", "m_mid", "rr", "z_last", "Z_upper", "01"], k))
            good_rtext = rule_text(rules, "passing", 0) + rule_text(rules, "failing", 0) + rule_text(rules, "skipping", 0)
            good_ttext = json.dumps([{"name": "case%d" % i, "input": specs[i]["input"], "expectations": {"rules": truth[i]}} for i in range(ncases)], indent=1)
            multi = {}
            for j, stem in enumerate(stems):
                if j == pos:
                    multi[stem + ".guard"] = rtext
                    multi[os.path.join("tests", stem + ("_tests.json" if scen != "bad-testfile" else "_tests.yaml"))] = ttext
                else:
                    multi[stem + ".guard"] = good_rtext
                    multi[os.path.join("tests", stem + "_tests.json")] = good_ttext
            os.makedirs(os.path.join(sdir, "tm", "tests"))
            for rel, content in multi.items():
                open(os.path.join(sdir, "tm", rel), "w").write(content)
            # --test-data may name a directory; test files in its sub-directories belong to the run as well
            os.makedirs(os.path.join(sdir, "tn", "specs", "regression", "deep"))
            shutil.copy(rpath, os.path.join(sdir, "tn", "rr.guard"))
            open(os.path.join(sdir, "tn", "specs", "rr_ok_tests.json"), "w").write(good_ttext)
            scen_path = os.path.join(sdir, "tn", "specs", "regression", "deep" if t % 2 else "", os.path.basename(tpath))
            open(scen_path, "w").write(ttext)
            # an all-matching test file on either side of the scenario file, by name and by modification time
            open(os.path.join(sdir, "tn", "specs", "zz_ok_tests.json"), "w").write(good_ttext)
            os.utime(os.path.join(sdir, "tn", "specs", "rr_ok_tests.json"), (1700000000, 1700000000))
            os.utime(scen_path, (1700001000, 1700001000))
            os.utime(os.path.join(sdir, "tn", "specs", "zz_ok_tests.json"), (1700002000, 1700002000))
            for fmt in ("plain", "json", "yaml", "junit"):
                for layout in ("files", "dir", "dir-multi", "files-nested"):
                    argv = ["test"] + (["-r", rpath, "-t", tpath] if layout == "files" else (["-r", os.path.join(sdir, "tn", "rr.guard"), "-t", os.path.join(sdir, "tn", "specs")] if layout == "files-nested"
                                                                                    else ["-d", os.path.join(sdir, "t" if layout == "dir" else "tm")]))
                    if fmt != "plain":
                        argv += ["-o", fmt]
                    if layout == "files-nested":
                        argv += rng.choice([[], ["-a"], ["-m"]])
                    code, out, err = core.run_cli(argv)
                    ctx.res.cases += 1
                    # the exit code does not depend on how the terminal is described: colour forced on / off gives the same code
                    cenv = dict(os.environ, **rng.choice([{"CLICOLOR_FORCE": "1", "TERM": "xterm-256color"}, {"NO_COLOR": "1"}, {"CLICOLOR": "0", "COLUMNS": "20"}]))
                    code2, _o2, _e2 = core.run_cli(argv, env=cenv)
                    ctx.res.counts["test_runs_with_colour_settings"] += 1
                    if code2 != code and code is not None and code2 is not None:
                        ctx.violation("test:exit-depends-on-colour-settings:%s" % fmt, "test exits %s by default and %s with %s" % (code, code2, {k: cenv[k] for k in ("CLICOLOR_FORCE", "NO_COLOR", "CLICOLOR") if k in cenv}),
                                      {"kind": "test", "argv_tail": argv[1:], "rules": rtext, "tests": ttext, "scenario": scen, "fmt": fmt, "layout": layout, "expected": exp})
                    m = matches(exp, code)
                    ctx.res.extra.setdefault("exit_class_x_mode", set()).add("test:%s:%s:%s" % (exp, fmt, layout))
                    case = {"kind": "test", "argv_tail": argv[1:], "rules": rtext, "tests": ttext, "scenario": scen, "fmt": fmt, "layout": layout, "expected": exp}
                    if layout == "dir-multi":
                        case["multi"] = multi
                        case["position"] = "%d/%d" % (pos, k)
                    if layout == "files-nested":
                        case["good_tests"] = good_ttext
                        case["deep"] = bool(t % 2)
                        case["flags"] = [a_ for a_ in argv if a_ in ("-a", "-m")]
                    if m is None:
                        ctx.inconclusive("crash-exit-%s" % code)
                        continue
                    ctx.res.distinct.add(("test", scen, fmt, layout, code))
                    if not m:
                        ctx.violation("test:%s:%s:%s:expected-%s-got-%s" % (scen, fmt, layout, exp, code),
                                      "test scenario=%s fmt=%s layout=%s: exit %s expected %s\n%s" % (scen, fmt, layout, code, exp, (out + err).decode("utf-8", "replace")[:300]), case)
    finally:
        shutil.rmtree(sdir, ignore_errors=True)


def replay(case, w):
    sdir = os.path.join(core.SCRATCH, "c06-replay-%d" % os.getpid())
    try:
        if case["kind"] == "validate":
            rp, dp = write_scenario(sdir, case["rules"], case["data"], case["exts"])
            argv, stdin = argv_for(case["mode"], rp, dp, case["rules"], case["data"], sdir)
            code, out, err = core.run_cli(argv, stdin=stdin.encode() if stdin is not None else None)
            return bool(matches(case["expected"], code)), "exit %s expected %s" % (code, case["expected"])
        if case["kind"] == "argv-files":
            os.makedirs(os.path.join(sdir, "t", "tests"))
            open(os.path.join(sdir, "t", "rr.guard"), "w").write(case["rules"])
            open(os.path.join(sdir, "t", "tests", "rr_tests.json"), "w").write(json.dumps([{"name": "c", "input": {"x": 2, "y": 1}, "expectations": {"rules": {"tagged": case["expectation"], "sized": "PASS"}}}]))
            code, out, err = core.run_cli(["test"] + [a.replace("{T}", os.path.join(sdir, "t")) for a in case["argv_tail"]])
            return bool(matches(case["expected"], code)), "exit %s expected %s" % (code, case["expected"])
        if case["kind"] == "argv":
            code, out, err = core.run_cli(case["argv"])
            return bool(matches(case["expected"], code)), "exit %s" % code
        os.makedirs(os.path.join(sdir, "t", "tests"))
        rpath = os.path.join(sdir, "t", "rr.guard")
        tpath = os.path.join(sdir, "t", "tests", "rr_tests.json" if case["scenario"] != "bad-testfile" else "rr_tests.yaml")
        open(rpath, "w").write(case["rules"])
        open(tpath, "w").write(case["tests"])
        if case.get("multi"):
            os.makedirs(os.path.join(sdir, "tm", "tests"))
            for rel, content in case["multi"].items():
                open(os.path.join(sdir, "tm", rel), "w").write(content)
        argv = ["test"] + (["-r", rpath, "-t", tpath] if case["layout"] == "files" else ["-d", os.path.join(sdir, "t" if case["layout"] == "dir" else "tm")])
        if case["layout"] == "files-nested":
            os.makedirs(os.path.join(sdir, "tn", "specs", "regression", "deep"))
            shutil.copy(rpath, os.path.join(sdir, "tn", "rr.guard"))
            scen_path = os.path.join(sdir, "tn", "specs", "regression", "deep" if case.get("deep") else "", os.path.basename(tpath))
            open(scen_path, "w").write(case["tests"])
            for nm_, mt_ in (("rr_ok_tests.json", 1700000000), ("zz_ok_tests.json", 1700002000)):
                open(os.path.join(sdir, "tn", "specs", nm_), "w").write(case.get("good_tests", "[]"))
                os.utime(os.path.join(sdir, "tn", "specs", nm_), (mt_, mt_))
            os.utime(scen_path, (1700001000, 1700001000))
            argv = ["test", "-r", os.path.join(sdir, "tn", "rr.guard"), "-t", os.path.join(sdir, "tn", "specs")] + list(case.get("flags", []))
        if case["fmt"] != "plain":
            argv += ["-o", case["fmt"]]
        code, out, err = core.run_cli(argv)
        return bool(matches(case["expected"], code)), "exit %s expected %s" % (code, case["expected"])
    finally:
        shutil.rmtree(sdir, ignore_errors=True)


def main(tier, seed):
    t0 = time.time()
    core.build(need_cli=True)
    res = core.run_shards(shard, seed, tier, "C06")
    ecm = res.extra.get("exit_class_x_mode", set())
    need = ["%s:%s" % (e, m) for e in (0, 19, 5, "error") for m in VMODES if m != "stdin"]
    have = sum(1 for n in need if n in ecm)
    floor = {"cases": (res.cases, 1500), "exit_class_x_mode": (have, len(need) - 4 if tier == "quick" else len(need))}
    return core.finish("C06", tier, seed, res, t0,
                       rule="scenarios = tuples of 1..3 rules-file kinds x 1..3 data-file kinds (every position of every kind; thorough: all tuples of "
                            "length <=2 plus 6000 longer ones) x 12 invocation modes, each run as a real process; `test` scenarios x 4 formats x 4 layouts (files, directory, directory with 2-3 rules files and the scenario file at each position, --test-data directory with the scenario file in a sub-directory); "
                            "distinct = (mode, expected class, exit code, #rules files, #data files)",
                       floor=floor, exhaustive=False,
                       assumptions=["per-pair verdicts come from singleton run_checks evaluations", "crash exits (101/signal) are routed to C08 and counted inconclusive here",
                                    "a broken rules file together with a FAIL is only required to be non-zero (as the statement says)"])
