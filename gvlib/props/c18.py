"""C18 - built-in functions compute what their documentation says.

`let r = f(args)` is evaluated at rule scope and the result list is read back through a deliberately
failing clause on %r (the report lists the value of every result element), for every function x argument
form (literal, query, variable, nested call) x generated argument values (unicode strings, numeric strings,
mixed-type lists, lists with unresolved members, empty selections, boundary offsets). The reference is an
independent Python implementation written from docs/FUNCTIONS.md; it abstains where the doc is silent.
"""
import json
import math
import re
import time
import urllib.parse

from .. import core, gen, obs

NEVER = "__never__"
STRS = ["", "a", "ab", "AbC", "hello world", "x/y", "1", "007", "-5", "+3", "1.5", "2.50", "1e3", "abc", "true", "TRUE", "False", "tRuE", "fAlSe", "é", "ÀB", " 7", "7 ", "0x10",
        "a%20b", "%41%42", "100%25", "a+b", "9223372036854775807", "9223372036854775808"]
MIXED = [5, -2, 0, 1.5, -2.75, 7.0, True, False, None, [1], {"k": 1}]
FLOAT_RE = re.compile(r"^[+-]?(\d+\.?\d*([eE][+-]?\d+)?|\.\d+([eE][+-]?\d+)?)$", re.ASCII)      # ASCII digits only: Python's int()/float() also accept other scripts
INT_RE = re.compile(r"^[+-]?\d+$", re.ASCII)


class Unspec(Exception):
    pass


class GuardError(Exception):
    pass


def tname(v):
    if v is None:
        return "null"
    if isinstance(v, bool):
        return "bool"
    if isinstance(v, int):
        return "int"
    if isinstance(v, float):
        return "float"
    if isinstance(v, str):
        return "str"
    if isinstance(v, list):
        return "list"
    return "map"


def ref_elementwise(fn, vals):
    out = []
    for v in vals:
        r = fn(v)
        if r is not SKIP:
            out.append(r)
    return out


SKIP = object()


def f_to_upper(v):
    if not isinstance(v, str):
        return SKIP
    if any(ord(c) > 127 for c in v) and v.upper().lower() != v.lower():
        raise Unspec()
    return v.upper()


def f_to_lower(v):
    return v.lower() if isinstance(v, str) else SKIP


def f_url_decode(v):
    if not isinstance(v, str):
        return SKIP
    if re.search(r"%(?![0-9A-Fa-f]{2})", v):
        raise Unspec()
    try:
        urllib.parse.unquote(v, errors="strict")
    except UnicodeDecodeError:
        raise Unspec()
    return urllib.parse.unquote(v)


def f_parse_int(v):
    if isinstance(v, bool) or v is None or isinstance(v, (list, dict)):
        return SKIP
    if isinstance(v, int):
        return v
    if isinstance(v, float):
        if abs(v) >= 2 ** 63:
            raise Unspec()
        return int(v)                   # truncation, as documented
    if INT_RE.match(v):
        n = int(v)
        if -(2 ** 63) <= n < 2 ** 63:
            return n
        raise GuardError()
    raise GuardError()


def f_parse_float(v):
    if isinstance(v, bool) or v is None or isinstance(v, (list, dict)):
        return SKIP
    if isinstance(v, int):
        return float(v)
    if isinstance(v, float):
        return v
    if FLOAT_RE.match(v):
        if float(v) in (float("inf"), float("-inf")):
            raise Unspec()              # a numeral that overflows a double: not documented (and cannot be shown in a report)
        return float(v)
    if v.strip().lower().lstrip("+-") in ("inf", "infinity", "nan"):
        raise Unspec()
    raise GuardError()


def f_parse_boolean(v):
    if isinstance(v, bool):
        return v
    if isinstance(v, str):
        if v.lower() == "true":
            return True
        if v.lower() == "false":
            return False
        raise GuardError()
    return SKIP


def f_parse_string(v):
    if isinstance(v, bool):
        return "true" if v else "false"
    if isinstance(v, int):
        return str(v)
    if isinstance(v, float):
        if v != v or v in (float("inf"), float("-inf")) or v == int(v) or abs(v) >= 1e15 or (v != 0 and abs(v) < 1e-4):
            raise Unspec()              # formatting of such floats is not documented
        return repr(v)
    if isinstance(v, str):
        return v
    return SKIP


def f_parse_char(v):
    if isinstance(v, bool) or v is None or isinstance(v, (list, dict, float)):
        return SKIP
    if isinstance(v, int):
        if 0 <= v <= 9:
            return str(v)
        raise GuardError()
    if len(v.encode()) > 1:
        if len(v) == 1:
            raise Unspec()              # a single non-ASCII character: the doc says "length > 1"
        raise GuardError()
    if v == "":
        raise Unspec()
    return v


RFC3339 = re.compile(r"^(\d{4})-(\d\d)-(\d\d)T(\d\d):(\d\d):(\d\d)(\.\d{1,9})?(Z|[+-]\d\d:\d\d)$", re.ASCII)


def f_parse_epoch(v):
    """seconds since 1970-01-01T00:00:00Z of an RFC 3339 timestamp: the UTC offset written in the text counts"""
    import datetime
    if not isinstance(v, str):
        raise Unspec()
    m = RFC3339.match(v)
    if not m:
        if re.match(r"^[A-Za-z -]*$", v):
            raise GuardError()          # no digits at all: certainly no timestamp
        raise Unspec()
    y, mo, d, h, mi, sec = (int(m.group(i)) for i in range(1, 7))
    try:
        base = datetime.datetime(y, mo, d, h, mi, sec, tzinfo=datetime.timezone.utc)
    except ValueError:
        raise Unspec()
    off = m.group(8)
    delta = 0 if off == "Z" else (1 if off[0] == "+" else -1) * (int(off[1:3]) * 3600 + int(off[4:6]) * 60)
    return int(base.timestamp()) - delta


def f_json_parse(v):
    if not isinstance(v, str):
        return SKIP
    try:
        return json.loads(v)
    except ValueError:
        raise Unspec()                  # the implementation accepts YAML here; the doc only speaks of JSON


def conv_repl(repl):
    return re.sub(r"\$\{(\d+)\}", r"\\g<\1>", repl)


def expected(fname, args):
    """args: list of python value-lists (resolved members; the marker UNRES for unresolved ones)"""
    vals = [v for v in args[0] if v is not UNRES]
    has_unres = any(v is UNRES for v in args[0])
    if fname == "count":
        return [len(vals)]
    if fname == "json_parse":
        out = []
        for r in ref_elementwise(f_json_parse, vals):
            # the observation clause (`%res == "..."`) compares a list VALUE element by element (documented
            # one-level flattening), so a parsed top-level JSON array shows up as its members
            out.extend(r if isinstance(r, list) else [r])
        return out
    if fname in ("to_upper", "to_lower", "url_decode", "parse_int", "parse_float", "parse_boolean", "parse_string", "parse_char", "parse_epoch"):
        return ref_elementwise(globals()["f_" + fname], vals)
    if fname == "substring":
        i, j = args[1][0], args[2][0]
        if not isinstance(i, int) or not isinstance(j, int) or isinstance(i, bool) or isinstance(j, bool):
            raise Unspec()
        if i == j:
            raise Unspec()
        out = []
        for s in vals:
            if not isinstance(s, str):
                continue
            if any(ord(c) > 127 for c in s):
                raise Unspec()
            if 0 <= i < j <= len(s):
                out.append(s[i:j])
        return out
    if fname == "join":
        d = args[1][0]
        if not isinstance(d, str):
            raise Unspec()
        if has_unres or any(not isinstance(v, str) for v in vals):
            raise Unspec()
        return [d.join(vals)]
    if fname == "regex_replace":
        pat, repl = args[1][0], args[2][0]
        out = []
        for s in vals:
            if not isinstance(s, str):
                continue
            out.append(re.sub(pat, conv_repl(repl), s))
        return out
    raise Unspec()


UNRES = object()

DOC = {
    "strs": STRS,
    "ascii": ["abc", "hello", "Zz", "q"],
    "mixed": ["ab", 5, "Cd", True, None, 1.5, [1], {"k": 1}, "e"],
    "nums": [5, -2, 0, 1.5, -2.75, 7.0],
    "numstrs": ["1", "007", "-5", "+3"],
    "floatstrs": ["1.5", "2.50", "1e3", "-0.25", "3"],
    "bools": ["true", "TRUE", "False", True, False],
    "one": "single",
    "objs": [{"n": "x1"}, {"m": 2}, {"n": "x3"}],
    "objs_first_missing": [{"m": 1}, {"n": "y2"}, {"n": "Y3"}],
    "objs_last_missing": [{"n": "z1"}, {"n": "7"}, {"m": 3}],
    "objs_all_missing": [{"m": 1}, {"m": 2}],
    "empty": [],
    "json1": '{"a": [1, "2", null, true, 1.5], "b": {"c": "d"}}',
    "json2": "[1, 2, 3]",
    "json3": '"just a string"',
    "arn": "arn:aws:svc:us-west-2:123456789012:Table/extracted",
    "enc": ["a%20b", "%41%42", "100%25", "a+b", "plain"],
    "digits": [0, 3, 9, 10, -1],
    "chars": ["a", "Z", "5"],
}
DOCS = json.dumps(DOC)

# (query text, resolved values incl. UNRES markers)
QUERIES = [
    ("strs[*]", STRS), ("ascii[*]", DOC["ascii"]), ("mixed[*]", DOC["mixed"]), ("nums[*]", DOC["nums"]), ("numstrs[*]", DOC["numstrs"]),
    ("floatstrs[*]", DOC["floatstrs"]), ("bools[*]", DOC["bools"]), ("one", ["single"]), ("objs[*].n", ["x1", UNRES, "x3"]),
    ("strs[ this == 'nothing-matches' ]", []), ("json1", [DOC["json1"]]), ("json2", [DOC["json2"]]), ("json3", [DOC["json3"]]), ("arn", [DOC["arn"]]),
    ("enc[*]", DOC["enc"]), ("digits[*]", DOC["digits"]), ("chars[*]", DOC["chars"]), ("zz_missing", [UNRES]), ("ascii", [DOC["ascii"]]),
    # where the unresolved member stands in the result list must not matter
    ("objs_first_missing[*].n", [UNRES, "y2", "Y3"]), ("objs_last_missing[*].n", ["z1", "7", UNRES]), ("objs_all_missing[*].n", [UNRES, UNRES]),
    ("objs_first_missing.*.n", [UNRES, "y2", "Y3"]),
]
UNARY_FNS = ["count", "to_upper", "to_lower", "url_decode", "parse_int", "parse_float", "parse_boolean", "parse_string", "parse_char", "json_parse"]
OFFSETS = [0, 1, 2, 3, 4, 5, 6, -1, 65535, 65536, 65537, 65538, 131072]


def observed(ctx, rules):
    res = ctx.w.run({"k": "rc", "data": DOCS, "rules": rules, "verbose": False})
    if res.get("r") == "err":
        return "error", res.get("err", "")
    if res.get("r") != "ok":
        return "crash", core.crash_signature(res)
    rep = json.loads(res["out"])
    vals = []

    def walk(checks):
        for c in checks:
            if "Rule" in c:                 # the checks of a parameterised rule called from the observed rule
                bad = walk(c["Rule"]["checks"])
                if bad:
                    return bad
                continue
            chk = (c.get("Clause") or {}).get("Binary", {}).get("check", {})
            if "Resolved" in chk:
                vals.append(chk["Resolved"]["from"]["value"])
            elif "InResolved" in chk:
                vals.append(chk["InResolved"]["from"]["value"])
            else:
                return json.dumps(chk)[:200]
        return None
    for e in rep.get("not_compliant", []):
        bad = walk(e["Rule"]["checks"])
        if bad:
            return "odd", bad
    return "values", vals


def same(a, b):
    if tname(a) != tname(b):
        return False
    if isinstance(a, list):
        return len(a) == len(b) and all(same(x, y) for x, y in zip(a, b))
    if isinstance(a, dict):
        return set(a) == set(b) and all(same(a[k], b[k]) for k in a)
    if isinstance(a, float):
        return a == b or (a != a and b != b)
    return a == b


def judge(ctx, fname, form, rules, args, detail):
    ctx.res.cases += 1
    try:
        exp = ("values", expected(fname, args))
    except Unspec:
        ctx.res.counts["unspec"] += 1
        return
    except GuardError:
        exp = ("error", None)
    except re.error:
        ctx.res.counts["unspec"] += 1
        return
    kind, got = observed(ctx, rules)
    case = {"rules": rules, "data": DOCS, "fname": fname, "args": json.dumps([[("<unresolved>" if v is UNRES else v) for v in a] for a in args], default=str)}
    ctx.res.extra.setdefault("function_x_form", set()).add("%s:%s" % (fname, form))
    if kind == "crash":
        ctx.inconclusive("crash:%s" % got)
        return
    if kind == "odd":
        ctx.inconclusive("unexpected report shape")
        return
    ctx.res.distinct.add((fname, form, exp[0], len(exp[1]) if exp[1] is not None else -1))
    if exp[0] == "error":
        ctx.res.counts["error_outcomes"] += 1
        if kind != "error":
            ctx.violation("%s:value-instead-of-error:%s" % (fname, detail), "%s on unparsable input returned %s instead of raising an error\n%s" % (fname, got, rules), case)
        return
    if kind == "error":
        ctx.violation("%s:error-instead-of-value:%s" % (fname, detail), "%s raised an error (%s), the documentation gives %s\n%s" % (fname, str(got)[:150], exp[1], rules), case)
        return
    if not exp[1]:
        ctx.res.counts["skip_outcomes"] += 1
    if not (len(got) == len(exp[1]) and all(same(x, y) for x, y in zip(got, exp[1]))):
        ctx.violation("%s:wrong-result:%s" % (fname, detail), "%s returned %s, the documentation gives %s\n%s" % (fname, json.dumps(got)[:300], json.dumps(exp[1])[:300], rules), case)
    elif len(ctx.res.samples) < 3 and exp[1]:
        ctx.sample({"function": fname, "form": form, "rules": rules, "result": got})


def rule_text(lets, call):
    return "rule r {\n" + "".join("    let %s = %s\n" % (n, v) for n, v in lets) + "    let res = %s\n    %%res == \"%s\"\n}\n" % (call, NEVER)


def shard(ctx):
    rng = ctx.rng("c18")
    idx = 0
    # ---- exhaustive: every unary function x every query x 3 argument forms
    for fname in UNARY_FNS:
        for q, vals in QUERIES:
            for form in ("query", "variable", "literal", "file-let", "call-argument"):
                idx += 1
                if not ctx.mine(idx):
                    continue
                if form == "query":
                    judge(ctx, fname, form, rule_text([], "%s(%s)" % (fname, q)), [vals], "query")
                elif form == "file-let":
                    # the call bound at file level, read inside a rule
                    judge(ctx, fname, form, "let res = %s(%s)\nrule r {\n    %%res == \"%s\"\n}\n" % (fname, q, NEVER), [vals], "file-let")
                elif form == "call-argument":
                    # the call written as the argument of a parameterised rule, read through the parameter
                    judge(ctx, fname, form, "rule obs(res) {\n    %%res == \"%s\"\n}\nrule r {\n    obs(%s(%s))\n}\n" % (NEVER, fname, q), [vals], "call-argument")
                elif form == "variable":
                    judge(ctx, fname, form, rule_text([("v", q)], "%s(%%v)" % fname), [vals], "variable")
                else:
                    # literal argument: each resolved scalar member spelled as a literal
                    for v in vals[:6]:
                        if v is UNRES or isinstance(v, (list, dict)) or not gen.lit_spellable(v) or v is None:
                            continue
                        judge(ctx, fname, form, rule_text([], "%s(%s)" % (fname, gen.glit(v))), [[v]], "literal")
    # ---- nested calls and compositions
    for q, vals in QUERIES:
        idx += 1
        if not ctx.mine(idx):
            continue
        strs = [v for v in vals if v is not UNRES]
        try:
            inner = ref_elementwise(f_to_lower, strs)
            judge(ctx, "to_upper", "nested", rule_text([], "to_upper(to_lower(%s))" % q), [inner], "nested")
        except (Unspec, GuardError):
            pass
        try:
            inner = ref_elementwise(f_parse_string, strs)
            judge(ctx, "parse_int", "nested", rule_text([], "parse_int(parse_string(%s))" % q), [inner], "nested:parse_int(parse_string)")
        except (Unspec, GuardError):
            pass
        try:
            inner = ref_elementwise(f_to_upper, strs)
            judge(ctx, "count", "nested", rule_text([], "count(to_upper(%s))" % q), [inner], "nested")
        except (Unspec, GuardError):
            pass
    # ---- substring: offsets x strings
    for i in OFFSETS:
        for j in OFFSETS:
            idx += 1
            if not ctx.mine(idx):
                continue
            detail = "offset>=65536" if max(i, j) >= 65536 else ("negative" if min(i, j) < 0 else "in-range")
            judge(ctx, "substring", "query", rule_text([], "substring(ascii[*], %d, %d)" % (i, j)), [DOC["ascii"], [i], [j]], detail)
            if idx % 3 == 0:
                judge(ctx, "substring", "variable", rule_text([("a", "mixed[*]"), ("i", str(i))], "substring(%%a, %%i, %d)" % j),
                      [[v for v in DOC["mixed"]], [i], [j]], detail)
    # ---- join
    for q, vals in QUERIES:
        for d in [",", "", "--", " "]:
            idx += 1
            if not ctx.mine(idx):
                continue
            judge(ctx, "join", "query", rule_text([], "join(%s, %s)" % (q, gen.glit(d))), [vals, [d]], "query")
            if idx % 2:
                judge(ctx, "join", "variable", rule_text([("c", q), ("d", gen.glit(d))], "join(%c, %d)"), [vals, [d]], "variable")
    for lst in (["", "a", "b"], ["", "", "x"], ["a", "", "b"], ["a", "b", ""], ["x"], ["a", "b", "c", "d"]):
        idx += 1
        if ctx.mine(idx):
            doc2 = json.dumps({"l": lst})
            rules = rule_text([], 'join(l[*], ",")')
            res = ctx.w.run({"k": "rc", "data": doc2, "rules": rules, "verbose": False})
            ctx.res.cases += 1
            try:
                got = [c["Clause"]["Binary"]["check"]["Resolved"]["from"]["value"] for e in json.loads(res["out"])["not_compliant"] for c in e["Rule"]["checks"]]
            except Exception:
                got = None
            if got != [",".join(lst)]:
                ctx.violation("join:wrong-result:empty-string-members", "join(%s, ',') returned %s" % (lst, got), {"rules": rules, "data": doc2, "fname": "join", "expect": [",".join(lst)]})
    # ---- regex_replace
    cases = [("arn", "^arn:(\\w+):(\\w+):([\\w0-9-]+):(\\d+):(.+)$", "${1}/${4}/${3}/${2}-${5}", "full-match"),
             ("ascii[*]", "l", "L", "partial-match"), ("ascii[*]", "^h", "J", "partial-match"), ("ascii[*]", "(.)$", "${1}!", "partial-match"),
             ("ascii[*]", "zzz", "-", "no-match"), ("strs[*]", "\\d+", "#", "partial-match"), ("ascii[*]", "^.*$", "X", "full-match"),
             ("mixed[*]", "b", "B", "partial-match")]
    for q, pat, repl, detail in cases:
        idx += 1
        if not ctx.mine(idx):
            continue
        vals = dict(QUERIES)[q]
        judge(ctx, "regex_replace", "query", rule_text([], "regex_replace(%s, %s, %s)" % (q, gen.glit(pat), gen.glit(repl))), [vals, [pat], [repl]], detail)
        judge(ctx, "regex_replace", "variable", rule_text([("s", q), ("p", gen.glit(pat)), ("t", gen.glit(repl))], "regex_replace(%s, %p, %t)"), [vals, [pat], [repl]], detail)
    # ---- json_parse(JSON text of D) == D on random documents; result behaves like a value in later clauses
    n = 12 if ctx.quick else 6000
    for t in range(n):
        d = gen.gen_doc(rng)
        doc2 = json.dumps({"text": json.dumps(d), "orig": d})
        rules = "rule r {\n    let p = json_parse(text)\n    %p == orig\n}\nrule s {\n    let p = json_parse(text)\n    %p exists\n    %p is_struct\n}\n"
        res = ctx.w.run({"k": "rc", "data": doc2, "rules": rules, "verbose": False})
        kind, st, fs = obs.rc_statuses(res)
        ctx.res.cases += 1
        ctx.res.counts["json_roundtrip"] += 1
        if kind != "ok":
            ctx.inconclusive("crash" if core.crash_signature(res) else "json-roundtrip-error")
        elif st.get("r") != "PASS" or st.get("s") != "PASS":
            ctx.violation("json_parse:roundtrip", "json_parse(JSON text of D) != D or not usable as a value: %s for D=%s" % (st, json.dumps(d)[:300]), {"rules": rules, "data": doc2, "fname": "json_parse", "roundtrip": True})
        else:
            ctx.res.distinct.add(("json-roundtrip", len(json.dumps(d)) // 50))
    # ---- json_parse of documents that are not maps (a scalar, null, a list): one value per text, equal to the document
    if ctx.mine(6):
        srules = ("rule r {\n    let p = json_parse(text)\n    %p == orig\n}\nrule c {\n    let p = json_parse(text)\n    let n = count(%p)\n    %n == 1\n}\n"
                  "rule e {\n    let p = json_parse(text)\n    %p exists\n}\nrule m {\n    let p = json_parse(texts[*])\n    let n = count(%p)\n    %n == 3\n}\n")
        for d in [None, 5, -1.5, True, False, 0, "s", "", [], [None], [1, "a"], {"a": None}, {}]:
            doc2 = json.dumps({"text": json.dumps(d), "orig": d, "texts": ["1", json.dumps(d), '{"k": 2}']})
            res = ctx.w.run({"k": "rc", "data": doc2, "rules": srules, "verbose": False})
            kind, st, fs = obs.rc_statuses(res)
            ctx.res.cases += 1
            ctx.res.counts["json_roundtrip_non_map"] += 1
            if kind != "ok":
                ctx.inconclusive("crash" if core.crash_signature(res) else "json-roundtrip-error")
            elif any(st.get(k_) != "PASS" for k_ in "rcem"):
                ctx.violation("json_parse:roundtrip:non-map-document", "json_parse(JSON text of D) for D=%s: equal to D / one value / exists / three values from three texts -> %s" % (
                    json.dumps(d), {k_: st.get(k_) for k_ in "rcem"}), {"rules": srules, "data": doc2, "fname": "json_parse", "roundtrip": True})
            else:
                ctx.res.distinct.add(("json-roundtrip-non-map", type(d).__name__))
    # ---- boolean / numeric spellings one by one (a list argument stops at its first unparsable member, so each spelling is its own call)
    if ctx.mine(5):
        for sp in ["true", "True", "TRUE", "tRuE", "fAlSe", "FALSE", "false", "False", "TrUe", "yes", "no", "1", "0", "t", "", " true", "true "]:
            judge(ctx, "parse_boolean", "literal", rule_text([], "parse_boolean(%s)" % gen.glit(sp)), [[sp]], "spelling")
            judge(ctx, "parse_boolean", "variable", rule_text([("v", gen.glit(sp))], "parse_boolean(%v)"), [[sp]], "spelling")
        for sp in ["0", "-0", "+7", "007", "1_000", "1e3", "1.0", "0x1F", " 5", "5 ", "٣", "9223372036854775807", "-9223372036854775808", "-9223372036854775809"]:
            judge(ctx, "parse_int", "literal", rule_text([], "parse_int(%s)" % gen.glit(sp)), [[sp]], "spelling")
        for sp in ["0", "-0.0", "+7.5", ".5", "5.", "1e3", "1E-3", "1e", "e3", "0x1p3", "1_0.0", " 1.5", "1,5", "١.٥"]:
            judge(ctx, "parse_float", "literal", rule_text([], "parse_float(%s)" % gen.glit(sp)), [[sp]], "spelling")
        # integers given to the converters, one by one: small, boundary, powers of two and values that wrap to a digit in 8 / 16 / 32 bits
        for iv in [0, 9, 10, -1, 255, 256, 261, 65536, 65541, 4294967296, 4294967301, -4294967291, 8589934601, 2 ** 31, 2 ** 31 + 3, -2 ** 31, 2 ** 53 + 1,
                   9223372036854775807, -9223372036854775807, 48, 57]:       # i64::MIN cannot be written as a literal
            for fn in ("parse_char", "parse_int", "parse_string", "parse_float", "parse_boolean"):
                judge(ctx, fn, "literal", rule_text([], "%s(%d)" % (fn, iv)), [[iv]], "integer")
                judge(ctx, fn, "variable", rule_text([("v", "%d" % iv)], "%s(%%v)" % fn), [[iv]], "integer")
        # timestamps, one by one: the same instant in several spellings, offsets east and west of UTC, fractions, the epoch itself
        for ts in ["2024-08-21T00:00:00Z", "2024-08-21T02:00:00+02:00", "2024-08-20T19:00:00-05:00", "2024-08-21T05:30:00+05:30", "2024-08-21T00:00:00+00:00",
                   "1970-01-01T00:00:00Z", "1970-01-01T01:00:00+01:00", "1969-12-31T23:59:59Z", "2000-02-29T12:34:56Z", "2038-01-19T03:14:08Z", "2024-08-21T00:00:00.500Z",
                   "2024-08-21T00:30:00Z", "2024-08-21T01:00:00+02:00", "2024-12-31T23:59:59-12:00", "2024-01-01T00:00:00+14:00", "not-a-date"]:
            judge(ctx, "parse_epoch", "literal", rule_text([], "parse_epoch(%s)" % gen.glit(ts)), [[ts]], "timestamp")
            judge(ctx, "parse_epoch", "variable", rule_text([("v", gen.glit(ts))], "parse_epoch(%v)"), [[ts]], "timestamp")
    # ---- the same source string parsed twice in one evaluation, once as it is and once after a rewrite: two different structures
    if ctx.mine(6):
        for q_, src_, pat_, rep_ in (("json1", DOC["json1"], '"d"', '"zz"'), ("json1", DOC["json1"], "true", "false"), ("json2", DOC["json2"], "2", "22")):
            rewritten = src_.replace(pat_, rep_)
            for order in (0, 1):
                a_, b_ = ("json_parse(%s)" % q_, "json_parse(regex_replace(%s, %s, %s))" % (q_, gen.glit(re.escape(pat_)), gen.glit(rep_)))
                first, second, want_src = (a_, b_, rewritten) if order == 0 else (b_, a_, src_)
                text = "rule r {\n    let first = %s\n    %%first exists\n    let res = %s\n    %%res == \"%s\"\n}\n" % (first, second, NEVER)
                judge(ctx, "json_parse", "twice", text, [[want_src]], "same-source-parsed-twice")
    # ---- random strings through the unary string functions
    n = 60 if ctx.quick else 40000
    alphabet = "abXYeE z01925/%+-_.é"
    for t in range(n):
        s = "".join(rng.choice(alphabet) for _ in range(rng.randint(0, 8)))
        fname = rng.choice(["to_upper", "to_lower", "url_decode", "parse_int", "parse_float", "parse_boolean", "parse_string", "parse_char"])
        if not gen.lit_spellable(s):
            continue
        judge(ctx, fname, "literal", rule_text([], "%s(%s)" % (fname, gen.glit(s))), [[s]], "random-literal")


def replay(case, w):
    if case.get("roundtrip"):
        res = w.run({"k": "rc", "data": case["data"], "rules": case["rules"], "verbose": False})
        kind, st, fs = obs.rc_statuses(res)
        return kind == "ok" and bool(st) and all(v == "PASS" for v in st.values()), str(st)
    if "expect" in case:
        res = w.run({"k": "rc", "data": case["data"], "rules": case["rules"], "verbose": False})
        try:
            got = [c["Clause"]["Binary"]["check"]["Resolved"]["from"]["value"] for e in json.loads(res["out"])["not_compliant"] for c in e["Rule"]["checks"]]
        except Exception:
            got = None
        return got == case["expect"], "got %s" % got
    found = []

    class Ctx(core.Ctx):
        def violation(self, sig, what, rp):
            found.append(sig)
    res = core.ShardResult()
    c = Ctx(w, 0, 1, 1, "quick", res, {"prop": "C18"})
    args = json.loads(case["args"])
    args = [[(UNRES if v == "<unresolved>" else v) for v in a] for a in args]
    judge(c, case["fname"], "replay", case["rules"], args, "replay")
    return not found, "violations %s" % found


def main(tier, seed):
    t0 = time.time()
    core.build()
    res = core.run_shards(shard, seed, tier, "C18")
    fx = res.extra.get("function_x_form", set())
    fns = UNARY_FNS + ["substring", "join", "regex_replace"]
    covered = sum(1 for f in fns if sum(1 for x in fx if x.startswith(f + ":")) >= 2)
    floor = {"cases": (res.cases, 1200), "functions_with_2+_argument_forms": (covered, len(fns)), "error_outcomes": (res.counts["error_outcomes"], 20),
             "skip_outcomes": (res.counts["skip_outcomes"], 20), "json_roundtrip": (res.counts["json_roundtrip"], 100)}
    return core.finish("C18", tier, seed, res, t0,
                       rule="every function x 19 queries (unicode, numeric strings, mixed-type lists, unresolved members, empty selections) x literal/query/variable/"
                            "nested argument forms; substring over 13x13 offsets incl. -1 and >=65536; join delimiters and empty-string members; regex_replace full/"
                            "partial/no match; json round trip on random documents; random literals; reference = independent Python implementation of docs/FUNCTIONS.md; "
                            "distinct = (function, form, outcome kind, result size)",
                       floor=floor, exhaustive=False,
                       assumptions=["the reference abstains (UNSPEC, counted) where the documentation is silent: substring with i == j or non-ASCII text, join over non-strings, "
                                    "non-JSON text for json_parse, float formatting of parse_string beyond simple decimals, inf/nan spellings, malformed %-escapes"])
