"""C14 - alternative spellings, layout and comments do not change a rule file's meaning.

For each generated program the canonical print and every single-flip variant (one occurrence of one
token class spelled differently: keyword case, not/NOT/!, or/OR/|OR|, =/:=, quotes, .n/[n], leading
this., indentation, blank lines, trailing spaces, line breaks inside lists/filters, # comments) must
parse to the same AST (`parse-tree --print-json`, location fields removed); sampled combinations too.
Type blocks are compared with their documented desugaring, file-level clauses with `rule default`.
"""
import json
import time

from .. import core, gen, obs


class VStyle(gen.Style):
    """canonical everywhere except occurrence k of token class cls (alternative number alt);
    with cls=None just counts occurrences and their syntactic contexts; with rnd set, flips at random"""
    ALTS = {
        "neg": ["NOT ", "!", "not   ", "NOT\t"],
        "opnot": ["!", "NOT ", "not  ", "not\t"],
        "sp": ["  ", "\t", "    "],
        "or": [" OR ", " |OR| ", "\n        or ", " or\n        "],
        "assign": [":="],
        "quote": ["'"],
        "idx": ["."],
        "this": [True],
        "indent": ["\t", " ", ""],
        "eol": ["\n\n", "  \n", " # trailing comment\n", "\n# a comment line\n", "\n\n   \n"],
        "listsep": [",\n        ", " , ", ", # c\n    ", "\n        , ", " # c\n    , ", "\n,\n"],
        "lbr": ["[\n        ", "[", "[ # c\n        "],
        "rbr": ["\n    ]", "]"],
        "kw": ["UPPER"],
    }

    def __init__(self, cls=None, k=None, alt=0, rnd=None):
        self.cls, self.k, self.alt, self.rnd = cls, k, alt, rnd
        self.count = {}
        self.ctxs = {}
        self.stack = []
        self.flipped = []

    def push(self, ctx):
        self.stack.append(ctx)

    def pop(self):
        self.stack.pop()

    def _hit(self, cls):
        n = self.count.get(cls, 0)
        self.count[cls] = n + 1
        self.ctxs.setdefault(cls, []).append(self.stack[-1] if self.stack else "file")
        if self.rnd is not None:
            if self.rnd.random() < 0.25:
                a = self.rnd.randrange(len(self.ALTS[cls]))
                self.flipped.append((cls, a))
                return a
            return None
        if cls == self.cls and n == self.k:
            return self.alt
        return None

    def kw(self, word):
        a = self._hit("kw")
        return word.upper() if a is not None else word

    def neg(self):
        a = self._hit("neg")
        return self.ALTS["neg"][a] if a is not None else "not "

    def opnot(self):
        a = self._hit("opnot")
        return self.ALTS["opnot"][a] if a is not None else "not "

    def orj(self):
        a = self._hit("or")
        return self.ALTS["or"][a] if a is not None else " or "

    def assign(self):
        a = self._hit("assign")
        return ":=" if a is not None else "="

    def quote(self, s):
        self.escape_quotes = False
        if "'" in s and '"' in s:
            return '"'
        canon = "'" if '"' in s else '"'
        a = self._hit("quote")
        if a is None:
            return canon
        # the other quote character; a string that contains it is written with the documented backslash escape
        self.escape_quotes = True
        return '"' if canon == "'" else "'"

    def idx(self, n, first=False):
        a = self._hit("idx")
        return ".%d" % n if a is not None else "[%d]" % n

    def this_prefix(self):
        a = self._hit("this")
        return a is not None

    def indent(self, depth):
        a = self._hit("indent")
        if a is None:
            return "    " * depth
        return self.ALTS["indent"][a] * depth

    def eol(self):
        a = self._hit("eol")
        return self.ALTS["eol"][a] if a is not None else "\n"

    def listsep(self):
        a = self._hit("listsep")
        return self.ALTS["listsep"][a] if a is not None else ", "

    def sp(self):
        a = self._hit("sp")
        return self.ALTS["sp"][a] if a is not None else " "

    def lbr(self):
        a = self._hit("lbr")
        return self.ALTS["lbr"][a] if a is not None else "[ "

    def rbr(self):
        a = self._hit("rbr")
        return self.ALTS["rbr"][a] if a is not None else " ]"


def strip_loc(x, key=None):
    """remove source locations; an explicit leading `this` of a longer query is the documented synonym of
    leaving it out (the AST keeps a `This` part for it), so it is normalised away - verdicts are compared
    for every variant of that class instead"""
    if isinstance(x, dict):
        return {k: strip_loc(v, k) for k, v in x.items() if k != "location"}
    if isinstance(x, list):
        if key == "query" and len(x) > 1 and x[0] == "This":
            x = x[1:]
        return [strip_loc(v) for v in x]
    return x


def parse_tree(w, text):
    r = w.run({"k": "cli", "argv": ["parse-tree", "-p"], "stdin": text})
    if r.get("r") == "ok" and r.get("code") == 0:
        try:
            return strip_loc(json.loads(r["out"])), r
        except ValueError:
            return None, r
    return None, r


def statuses(w, text, docs):
    res = w.run({"k": "rc", "data": docs, "rules": text, "verbose": False})
    kind, st, fs = obs.rc_statuses(res)
    if kind == "ok":
        return {obs.strip_default(k): v for k, v in st.items()}, res
    if core.crash_signature(res):
        return "crash", res
    return "err", res


def shard(ctx):
    rng = ctx.rng("c14")
    o = gen.Opts(types=True, calls=True, msgs=True, max_rules=3, max_lines=3, keys_filters=True, some_lets=True, interp=True)
    o.scalars = list(o.scalars) + ["it's", 'say "hi"', "o'", '"']       # strings that need an escape under one of the two quote styles
    nprog = 8 if ctx.quick else 260
    cover = ctx.res.extra.setdefault("class_context_programs", core.Counter())
    for t in range(nprog):
        # every third program runs on a document whose keys need quotes in a query (`"Fn::GetAtt"`, `'a-b'`): quoted keys then start clauses,
        # filters and blocks in every layout
        doc = gen.gen_doc(rng) if t % 3 else gen.gen_doc(rng, keys=["a", "b", "Type", "Properties", "Resources", "Fn::GetAtt", "a-b", "with space", "Tags", "k"])
        docs = json.dumps(doc)
        f = gen.gen_file(rng, doc, o)
        counter = VStyle()
        canon = gen.pfile(f, counter)
        base_ast, r0 = parse_tree(ctx.w, canon)
        if base_ast is None:
            sig = core.crash_signature(r0)
            if sig:
                ctx.inconclusive("crash")
            else:
                ctx.violation("canonical-print-unparsable", "generated program does not parse: %s\n%s" % (r0.get("err", "")[:300], canon),
                              {"kind": "variant", "canon": canon, "variant": canon, "data": docs})
            continue
        base_st, _ = statuses(ctx.w, canon, docs)
        seen_here = set()
        variants = []
        for cls, n in counter.count.items():
            for k in range(n):
                alts = range(len(VStyle.ALTS[cls]))
                if ctx.quick and len(VStyle.ALTS[cls]) > 1:
                    alts = [rng.randrange(len(VStyle.ALTS[cls]))]
                for a in alts:
                    variants.append((cls, k, a, counter.ctxs[cls][k]))
        if ctx.quick and len(variants) > 90:
            rng.shuffle(variants)
            variants = variants[:90]
        for cls, k, a, cctx in variants:
            text = gen.pfile(f, VStyle(cls, k, a))
            if text == canon:
                continue
            ast, r = parse_tree(ctx.w, text)
            ctx.res.cases += 1
            seen_here.add((cls, cctx))
            case = {"kind": "variant", "canon": canon, "variant": text, "data": docs}
            altname = repr(VStyle.ALTS[cls][a])
            if ast is None:
                if core.crash_signature(r):
                    ctx.inconclusive("crash")
                    continue
                ctx.violation("variant-rejected:%s:%s:%s" % (cls, altname, cctx), "documented spelling/layout variant does not parse (%s in %s): %s\n--- canonical\n%s--- variant\n%s" % (
                    cls, cctx, (r.get("err") or r.get("emsg", ""))[:200], canon, text), case)
                continue
            if ast != base_ast:
                ctx.violation("ast-differs:%s:%s:%s" % (cls, altname, cctx), "variant parses to a different program (%s in %s)\n--- canonical\n%s--- variant\n%s" % (cls, cctx, canon, text), case)
                continue
            ctx.res.distinct.add((cls, a, cctx))
            if isinstance(base_st, dict) and (cls == "this" or rng.random() < 0.15):
                st, _ = statuses(ctx.w, text, docs)
                ctx.res.counts["verdict_compared"] += 1
                if st != base_st:
                    ctx.violation("verdict-differs:%s:%s" % (cls, cctx), "same AST but different verdicts %s vs %s" % (base_st, st), case)
            if len(ctx.res.samples) < 2 and cls in ("or", "eol"):
                ctx.sample({"class": cls, "context": cctx, "alternative": altname, "variant_text": text[:500]})
        for key in seen_here:
            cover["%s@%s" % key] += 1
        # sampled combinations
        for c in range(4 if ctx.quick else 32):
            st_ = VStyle(rnd=rng)
            text = gen.pfile(f, st_)
            ast, r = parse_tree(ctx.w, text)
            ctx.res.cases += 1
            ctx.res.counts["combination_variants"] += 1
            case = {"kind": "variant", "canon": canon, "variant": text, "data": docs}
            if ast is None:
                if core.crash_signature(r):
                    ctx.inconclusive("crash")
                    continue
                ctx.violation("combination-rejected", "combination of documented variants does not parse: %s\n--- canonical\n%s--- variant\n%s" % (
                    (r.get("err") or "")[:200], canon, text), case)
            elif ast != base_ast:
                ctx.violation("combination-ast-differs", "combination parses to a different program\n--- canonical\n%s--- variant\n%s" % (canon, text), case)

    # ---- an explicit leading `this.` in every syntactic position, against a document whose enclosing levels carry the same key names
    #      (so that resolving `this` against the wrong value changes the verdict)
    if ctx.mine(3):
        tdoc = {"k": "b", "t": "B", "v": 2, "l": [{"k": "a", "v": 1}, {"k": "b", "v": 2}], "m": {"x": {"t": "A", "v": 1, "l": [{"k": "a", "v": 1}]}, "y": {"t": "B", "v": 2, "l": []}}}
        tdocs = json.dumps(tdoc)
        pairs = [('l[ k == "a" ].v == 1', 'l[ this.k == "a" ].v == 1'), ('l[ k == "a" ].v == 2', 'l[ this.k == "a" ].v == 2'),
                 ('m[ t == "A" ].v == 1', 'm[ this.t == "A" ].v == 1'), ('m.*[ t == "B" ].v == 1', 'm.*[ this.t == "B" ].v == 1'),
                 ('m[ t == "A" ].l[ k == "a" ].v == 1', 'm[ this.t == "A" ].l[ this.k == "a" ].v == 1'),
                 ('l[ k == "zz" ] empty', 'l[ this.k == "zz" ] empty'), ('some l[*].v == 2', 'some this.l[*].v == 2'), ('v == 2', 'this.v == 2'),
                 ('l[*] {\n        v >= 1\n        k in ["a", "b"]\n    }', 'l[*] {\n        this.v >= 1\n        this.k in ["a", "b"]\n    }'),
                 ('m.* {\n        l[ k == "a" ] !empty or t == "B"\n    }', 'm.* {\n        this.l[ this.k == "a" ] !empty or this.t == "B"\n    }'),
                 ('when l[ k == "b" ].v == 2 {\n        v == 2\n    }', 'when this.l[ this.k == "b" ].v == 2 {\n        this.v == 2\n    }'),
                 ('l[ k == "a" or v == 2 ].v >= 1', 'l[ this.k == "a" or this.v == 2 ].v >= 1'), ('m[ l !empty ].t == "A"', 'm[ this.l !empty ].t == "A"')]
        A = "".join("rule p%d {\n    %s\n}\n" % (i, a_) for i, (a_, b_) in enumerate(pairs))
        B = "".join("rule p%d {\n    %s\n}\n" % (i, b_) for i, (a_, b_) in enumerate(pairs))
        sa, ra = statuses(ctx.w, A, tdocs)
        sb, rb = statuses(ctx.w, B, tdocs)
        ctx.res.cases += 1
        ctx.res.counts["this-matrix"] += len(pairs)
        if not isinstance(sa, dict) and not isinstance(sb, dict):
            ctx.inconclusive("this-matrix-does-not-evaluate")
        elif not isinstance(sa, dict) or not isinstance(sb, dict):
            if sa != sb:
                ctx.violation("this-matrix:error", "explicit `this.` changes an evaluation into an error: %s vs %s" % (sa, sb), {"kind": "pair", "a": A, "b": B, "data": tdocs})
        else:
            bad = sorted(k for k in sa if sa[k] != sb.get(k))
            if bad:
                i = int(bad[0][1:])
                ctx.violation("this-matrix:verdict", "`%s` is %s but `%s` is %s" % (pairs[i][0], sa[bad[0]], pairs[i][1], sb.get(bad[0])), {"kind": "pair", "a": A, "b": B, "data": tdocs})
            else:
                ctx.res.distinct.add(("this-matrix", tuple(sorted(set(sa.values())))))
    # ---- fixed layout pairs around quoted keys: a filter / block / clause that STARTS with a quoted key, with and without blanks after `[`
    if ctx.mine(3):
        canon_q = ('rule q {\n    x[ "Fn::GetAtt" exists ]."Fn::GetAtt"[1] == "GroupId"\n    x[ "a-b" == 1 ].k exists\n    "with space" exists\n'
                   '    x[ "a-b" == 1 or k == 2 ] !empty\n    x."a-b"[ "k" exists ] empty\n}\n')
        variants_q = [canon_q.replace('[ "', '["').replace(' ]', ']'), canon_q.replace('"', "'"),
                      canon_q.replace('[ "', '[\n        "').replace(' ]', '\n    ]'), canon_q.replace('[ "', '[ # c\n        "'), canon_q.replace('[ "', '[\t"'),
                      canon_q.replace('x[ ', 'x[').replace('."a-b"[ ', '."a-b"[')]
        base_ast, rb = parse_tree(ctx.w, canon_q)
        ctx.res.cases += 1
        if base_ast is None:
            ctx.violation("quoted-key-layouts:canonical-rejected", "the canonical text does not parse: %s" % (rb.get("emsg") or rb.get("err") or "")[:200], {"kind": "variant", "canon": canon_q, "variant": canon_q, "data": "{}"})
        else:
            for vq in variants_q:
                va, rv_ = parse_tree(ctx.w, vq)
                ctx.res.cases += 1
                ctx.res.counts["quoted_key_layout_variants"] += 1
                if va is None:
                    ctx.violation("quoted-key-layouts:variant-rejected", "a layout / quoting variant of a filter that starts with a quoted key does not parse: %s" % (rv_.get("emsg") or rv_.get("err") or "")[:200],
                                  {"kind": "variant", "canon": canon_q, "variant": vq, "data": "{}"})
                elif va != base_ast:
                    ctx.violation("quoted-key-layouts:ast-differs", "a layout / quoting variant parses to a different program", {"kind": "variant", "canon": canon_q, "variant": vq, "data": "{}"})
                else:
                    ctx.res.distinct.add(("quoted-key-layout", variants_q.index(vq)))
    # ---- type block == Resources.*[ Type == 'T' ] { ... } ; file-level clauses == rule default
    n = 120 if ctx.quick else 4000
    o2 = gen.Opts(refs=False, max_lines=3)
    for t in range(n):
        doc = gen.gen_cfn_doc(rng, nres=rng.choice([0, 1, 2, 3, 3]))
        hasres = isinstance(doc.get("Resources"), dict) and len(doc["Resources"]) > 0
        docs = json.dumps(doc)
        ty = rng.choice(gen.TYPES)
        rv = rng.choice(list(doc["Resources"].values())) if hasres else {}
        if hasres and rng.random() < 0.7:
            # several resources of the block's type whose bodies can come out differently (PASS / SKIP / FAIL per resource)
            ty = rv.get("Type") if isinstance(rv.get("Type"), str) else ty
            for r_ in doc["Resources"].values():
                if isinstance(r_, dict) and rng.random() < 0.7:
                    r_["Type"] = ty
            docs = json.dumps(doc)
        env = {"refs": [], "vars": [], "prules": [], "allow_ref": False}
        body = gen.gen_cnf(rng, rv, o2, 1, env, maxlines=3)
        pk = sorted(rv.get("Properties", {})) if isinstance(rv.get("Properties"), dict) else []
        if pk and rng.random() < 0.5:
            # the body applies only to resources that have a given property: SKIP for the others
            k_ = rng.choice(pk)
            guard = [[gen.clause([["key", "Properties"], ["key", k_]], rng.choice(["exists", "is_string", "is_int"]), None)]]
            body = [[{"t": "when", "cond": guard, "lets": [], "body": body}]]
            ctx.res.counts["typeblock:guarded-body"] += 1
        cond = gen.gen_cond(rng, doc, o2, 0, env) if rng.random() < 0.3 else None
        tb = {"t": "type", "type": ty, "cond": cond, "lets": [], "body": body}
        blk = {"t": "block", "some": False, "q": [["key", "Resources"], ["all"], ["filter", [[gen.clause([["key", "Type"]], "==", ["lit", ty])]]]],
               "lets": [], "body": gen.clone(body), "not_empty": False}
        des = blk if cond is None else {"t": "when", "cond": gen.clone(cond), "lets": [], "body": [[blk]]}
        A = gen.pfile({"lets": [], "default": [], "rules": [gen.rule("t", [[tb]])]})
        B = gen.pfile({"lets": [], "default": [], "rules": [gen.rule("t", [[des]])]})
        sa, ra = statuses(ctx.w, A, docs)
        sb, rb = statuses(ctx.w, B, docs)
        ctx.res.cases += 1
        cls = "has-resources" if hasres else "no-resources"
        ctx.res.counts["typeblock:" + cls] += 1
        if sa == "crash" or sb == "crash":
            ctx.inconclusive("crash")
            continue
        if sa != sb:
            kind = "error-vs-verdict" if (sa == "err") != (sb == "err") else "verdict"
            ctx.violation("typeblock-desugar:%s:%s" % (cls, kind), "type block %s vs desugared %s (%s)\n%s---\n%s--- doc %s" % (sa, sb, ra.get("err", "")[:120], A, B, docs[:300]),
                          {"kind": "pair", "a": A, "b": B, "data": docs})
        else:
            ctx.res.distinct.add(("typeblock", cls, str(sa)))
        # default rule
        cnf = gen.gen_cnf(rng, doc, gen.Opts(refs=False, whens=False, types=False, max_lines=3), 0, env, maxlines=3)
        A = gen.pfile({"lets": [], "default": cnf, "rules": []})
        B = gen.pfile({"lets": [], "default": [], "rules": [gen.rule("default", gen.clone(cnf))]})
        sa, ra = statuses(ctx.w, A, docs)
        sb, rb = statuses(ctx.w, B, docs)
        ctx.res.cases += 1
        ctx.res.counts["default-rule"] += 1
        if sa == "crash" or sb == "crash":
            ctx.inconclusive("crash")
        elif sa != sb:
            ctx.violation("default-rule", "file-level clauses %s vs rule default %s\n%s---\n%s--- doc %s" % (sa, sb, A, B, docs[:300]),
                          {"kind": "pair", "a": A, "b": B, "data": docs})
        else:
            ctx.res.distinct.add(("default", str(sa)))
        # default rule, richer bodies: `when` blocks, references to named rules and calls of a parameterised rule at file level
        helpers = [gen.rule("h0", gen.gen_cnf(rng, doc, gen.Opts(refs=False, whens=False, types=False, max_lines=2), 0, env, maxlines=2)),
                   gen.rule("h1", gen.gen_cnf(rng, doc, gen.Opts(refs=False, whens=False, types=False, max_lines=2), 0, env, maxlines=2))]
        env2 = dict(env, refs=["h0", "h1"], allow_ref=True)
        o3 = gen.Opts(refs=True, whens=True, types=False, max_lines=3)
        cnf = gen.gen_cnf(rng, doc, gen.Opts(refs=False, whens=False, types=False, max_lines=2), 0, env, maxlines=2)
        # always one `when` block whose body names a rule on a line of its own (the composition idiom of the documentation)
        cnf.append([{"t": "when", "cond": gen.gen_cond(rng, doc, o3, 0, env2), "lets": [], "body": [[{"t": "ref", "neg": rng.random() < 0.3, "name": rng.choice(["h0", "h1"]), "msg": None}]] +
                     gen.gen_cnf(rng, doc, gen.Opts(refs=False, whens=False, types=False, max_lines=1), 1, env, maxlines=1)}])
        A = gen.pfile({"lets": [], "default": cnf, "rules": gen.clone(helpers)})
        B = gen.pfile({"lets": [], "default": [], "rules": gen.clone(helpers) + [gen.rule("default", gen.clone(cnf))]})
        sa, ra = statuses(ctx.w, A, docs)
        sb, rb = statuses(ctx.w, B, docs)
        ctx.res.cases += 1
        ctx.res.counts["default-rule-with-references"] += 1
        if sa == "crash" or sb == "crash":
            ctx.inconclusive("crash")
        elif sa != sb:
            ctx.violation("default-rule:references", "file-level clauses %s vs rule default %s\n%s---\n%s--- doc %s" % (sa, sb, A, B, docs[:300]),
                          {"kind": "pair", "a": A, "b": B, "data": docs})
        else:
            ctx.res.distinct.add(("default-refs", str(sa)))
        if not ctx.res.counts["bare_reference_probe"] and ctx.mine(0):
            ctx.res.counts["bare_reference_probe"] += 1
            # a rule reference written directly at file level (not inside a `when` block)
            A = "h0\n" + gen.pfile({"lets": [], "default": [], "rules": gen.clone(helpers[:1])})
            B = gen.pfile({"lets": [], "default": [], "rules": gen.clone(helpers[:1]) + [gen.rule("default", [[{"t": "ref", "neg": False, "name": "h0", "msg": None}]])]})
            sa, ra = statuses(ctx.w, A, docs)
            sb, rb = statuses(ctx.w, B, docs)
            ctx.res.cases += 1
            if sa == "crash" or sb == "crash":
                ctx.inconclusive("crash")
            elif sa == "err" and sb != "err" and "arser" in ra.get("err", "")[:80]:
                ctx.violation("default-rule:bare-reference-at-file-level:rejected", "a rule reference written at file level is rejected by the parser, inside `rule default` it evaluates (%s)" % sb,
                              {"kind": "pair", "a": A, "b": B, "data": docs})
            elif sa != sb:
                ctx.violation("default-rule:bare-reference-at-file-level", "file-level reference %s vs rule default %s" % (sa, sb), {"kind": "pair", "a": A, "b": B, "data": docs})


def replay(case, w):
    if case["kind"] == "variant":
        a, _ = parse_tree(w, case["canon"])
        b, r = parse_tree(w, case["variant"])
        if b is None:
            return False, "variant rejected: %s" % (r.get("err") or "")[:200]
        return a == b, "ASTs %s" % ("equal" if a == b else "differ")
    sa, _ = statuses(w, case["a"], case["data"])
    sb, _ = statuses(w, case["b"], case["data"])
    return sa == sb, "a=%s b=%s" % (sa, sb)


def main(tier, seed):
    t0 = time.time()
    core.build()
    res = core.run_shards(shard, seed, tier, "C14")
    cover = res.extra.get("class_context_programs", {})
    need = 20 if tier == "thorough" else 3
    well = sum(1 for k, v in cover.items() if v >= need)
    floor = {"cases": (res.cases, 3000), "class_x_context_pairs_covered": (well, 40),
             "typeblock_has_resources": (res.counts["typeblock:has-resources"], 50), "default-rule": (res.counts["default-rule"], 50)}
    return core.finish("C14", tier, seed, res, t0,
                       rule="per program: the canonical print vs every single-occurrence flip of every token class (thorough: every alternative; quick: one "
                            "alternative per occurrence, <=90 per program) and random combinations, compared as ASTs (parse-tree JSON without locations); "
                            "type block vs desugared filter block and file-level clauses vs `rule default`, compared by verdict; distinct = (class, alternative, context)",
                       floor=floor,
                       assumptions=["documented restrictions are never varied: a named-rule reference ends its line, its message stays on its line"])
