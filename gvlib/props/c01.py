"""C01 - rule verdicts equal the documented semantics of clauses, queries and blocks.

Oracle: gvlib/refint.py, an independent interpreter of the documented semantics (it abstains - UNSPEC - where
the documentation does not decide). (A) exhaustive single-clause enumeration: 40 query shapes x some/all x
(9 unary x 4 polarities + 6 binary x 2 polarities x 2 prefix x 14 literals) x 3 documents; (B) random programs
of the core fragment (queries with * [*] [n] [filter], some/all, literals, blocks, when, named references, let
variables, CNF, type blocks) x random documents. Statuses per rule and for the file are compared; the tool
must raise an evaluation error exactly where the reference does.
"""
import json
import time

from .. import core, gen, obs, refint

DOCS = [
    {"nz": -0.0, "s": "ab", "i": 5, "f": 1.5, "b": True, "n": None, "l": [1, 2, 3], "ls": ["a", "b"], "le": [], "m": {"x": 1, "y": "s"}, "me": {},
     "lm": [{"x": 1}, {"x": 2}, {"y": 3}], "nest": {"k": {"v": 2}, "7": 2, "200": {"v": "ab"}}},
    {"nz": 0.0, "s": "zz", "i": 2, "f": 2.5, "b": False, "n": 0, "l": [5], "ls": ["ab", 5, None], "le": [[]], "m": {"x": "ab"}, "me": {"q": {}},
     "lm": [{"x": 1, "y": 1}], "nest": {"k": 7}},
    {"nz": -1.5, "s": "", "i": "5", "l": [], "ls": "a", "m": [{"x": 1}], "lm": {"x": 1, "y": {"x": 1}}, "nest": {}},
]
K = gen.kq
QUERIES = {
    "s": K("s"), "i": K("i"), "f": K("f"), "b": K("b"), "n": K("n"), "l": K("l"), "l[*]": K("l") + [["allidx"]], "ls[*]": K("ls") + [["allidx"]],
    "le": K("le"), "m": K("m"), "m.*": K("m") + [["all"]], "me": K("me"), "me.*": K("me") + [["all"]], "lm[*].x": K("lm") + [["allidx"]] + K("x"),
    "lm[x==1].x": K("lm") + [["filter", [[gen.clause(K("x"), "==", ["lit", 1])]]]] + K("x"),
    "lm[x==99].x": K("lm") + [["filter", [[gen.clause(K("x"), "==", ["lit", 99])]]]] + K("x"),
    "lm[x exists]": K("lm") + [["filter", [[gen.clause(K("x"), "exists", None)]]]],
    "lm[x==99]": K("lm") + [["filter", [[gen.clause(K("x"), "==", ["lit", 99])]]]],
    "nest.k.v": K("nest", "k", "v"), "nest.zz.v": K("nest", "zz", "v"), "zz": K("zz"), "l[0]": K("l") + [["idx", 0]], "l[7]": K("l") + [["idx", 7]],
    "m.x": K("m", "x"), "lm.*.x": K("lm") + [["all"]] + K("x"), "this.i": [["this"]] + K("i"),
}
KF = lambda op, rhs: [["keysfilter", op, ["lit", rhs]]]
QUERIES.update({
    "m[keys=='x']": K("m") + KF("==", "x"), "m[keys!='x']": K("m") + KF("!=", "x"), "m[keys==/^x/]": K("m") + KF("==", {"$re": "^x"}),
    "m[keys!=/x|y/]": K("m") + KF("!=", {"$re": "x|y"}), "m[keys in ['x','zz']]": K("m") + KF("in", ["x", "zz"]), "m[keys not in ['x']]": K("m") + KF("not in", ["x", "q"]),
    "m[keys in ['x',5]]": K("m") + KF("in", ["x", 5]), "m[keys in [true,'y',/x/]]": K("m") + KF("in", [True, "y", {"$re": "x"}]), "m[keys not in [5,'y']]": K("m") + KF("not in", [5, "y"]),
    "m[keys==5]": K("m") + KF("==", 5), "m[keys!=5]": K("m") + KF("!=", 5), "me[keys=='q']": K("me") + KF("==", "q"),
    "lm[keys in ['y','x']].x": K("lm") + KF("in", ["y", "x"]) + K("x"), "nest[keys=='k'].*": K("nest") + KF("==", "k") + [["all"]],
    # digits-only keys (written quoted): a map entry of that name, or the list element at that index
    "nz": K("nz"),      # negative zero / zero / a negative float
    'nest."7"': K("nest", "7"), 'nest."200".v': K("nest", "200", "v"), 'l."1"': K("l", "1"), 's."0"': K("s", "0"),
})
LITS = {"0.0": 0.0, "5": 5, "2": 2, "1.5": 1.5, '"ab"': "ab", '"a"': "a", "true": True, "null": None, "[1,2,3]": [1, 2, 3], "[5]": [5], "{x:1,y:s}": {"x": 1, "y": "s"},
        "/^a/": {"$re": "^a"}, "r[1,5]": {"$range": [1, 5, "[", "]"]}, "r(1.0,2.0)": {"$range": [1.0, 2.0, "(", ")"]}, "r[0.0,1.0]": {"$range": [0.0, 1.0, "[", "]"]}, "[0.0,1.5]": [0.0, 1.5], '[5,"ab"]': [5, "ab"]}
BIN = ["==", "<", "<=", ">", ">=", "in"]


def tool_statuses(w, text, docs):
    res = w.run({"k": "rc", "data": docs, "rules": text, "verbose": False})
    kind, st, fs = obs.rc_statuses(res)
    if kind == "ok":
        return {obs.strip_default(k): v for k, v in st.items()}, fs, res
    if kind == "empty":
        return {}, "SKIP", res
    if core.crash_signature(res):
        return "crash", None, res
    if "arser" in res.get("err", "")[:60]:
        return "parse-error", None, res
    return "error", None, res


def enum_clauses():
    for qn, q in QUERIES.items():
        for some in (False, True):
            for op in gen.UNARY:
                for opneg in (False, True):
                    for neg in (False, True):
                        yield qn, gen.clause(q, op, None, neg=neg, opneg=opneg, some=some), ("unary", op)
            for op in BIN:
                for ln, lit in LITS.items():
                    if op in ("<", "<=", ">", ">=") and isinstance(lit, (list, dict)):
                        continue
                    if op == "in" and not (isinstance(lit, list) or refint.is_range(lit)):
                        continue
                    for pol in (0, 1, 2):
                        opneg = pol == 1 and op in ("==", "in")
                        neg = pol == 2 or (pol == 1 and not opneg)
                        yield qn, gen.clause(q, op, ["lit", lit], neg=neg, opneg=opneg, some=some), ("binary", op, ln)
                for rn, rq in RQ.items():
                    for pol in (0, 1, 2):
                        opneg = pol == 1 and op in ("==", "in")
                        neg = pol == 2 or (pol == 1 and not opneg)
                        yield qn, gen.clause(q, op, ["query", rq], neg=neg, opneg=opneg, some=some), ("binary", op, rn)


# queries on the right-hand side that select nothing (the clause must SKIP whatever stands on the left) or something (not decided here)
RQ = {"q:lm[x==99].x": K("lm") + [["filter", [[gen.clause(K("x"), "==", ["lit", 99])]]]] + K("x"),
      "q:lm[x==99]": K("lm") + [["filter", [[gen.clause(K("x"), "==", ["lit", 99])]]]],
      "q:m[keys=='zz']": K("m") + [["keysfilter", "==", ["lit", "zz"]]],
      "q:i": K("i")}


def judge_file(ctx, f, doc, docs, label, shape=None):
    """evaluate AST f on doc with tool and reference; compare per rule"""
    text = gen.pfile(f)
    ref, rfs = refint.Interp(f, doc).run()
    st, fs, res = tool_statuses(ctx.w, text, docs)
    ctx.res.cases += 1
    case = {"rules": text, "data": docs, "ast": f}
    if st == "crash":
        ctx.inconclusive("crash (C08)")
        return None
    if st == "parse-error":
        ctx.violation("%s:generated-program-rejected" % label, "parser rejects a program of the documented core language: %s\n%s" % (res.get("err", "")[:200], text), case)
        return None
    if st == "error":
        if rfs == "ERROR":
            ctx.res.distinct.add((label, "ERROR"))
            ctx.res.counts["status:ERROR"] += 1
            return "agree"
        if rfs == "UNSPEC":
            ctx.res.counts["unspec"] += 1
            return None
        return ("error", ref, res.get("err", "")[:160])
    # tool produced statuses
    if rfs == "ERROR":
        return ("missing-error", ref, st)
    diffs = {}
    for name, rs in ref.items():
        if rs == "UNSPEC":
            ctx.res.counts["unspec"] += 1
            continue
        got = st.get(name)
        if got != rs:
            diffs[name] = (got, rs)
        else:
            ctx.res.counts["status:" + rs] += 1
    if rfs not in ("UNSPEC",) and fs != rfs and not diffs:
        diffs["<file>"] = (fs, rfs)
    if diffs:
        return ("status", diffs, None)
    return "agree"


def shard(ctx):
    # ---------------------------------------------------------------- (A) exhaustive single clauses
    batch = {}
    idx = 0
    for qn, cl, cls in enum_clauses():
        idx += 1
        if not ctx.mine(idx):
            continue
        for di, doc in enumerate(DOCS):
            batch.setdefault(di, []).append((qn, cl, cls))
            if len(batch[di]) >= 40:
                flush(ctx, batch.pop(di), di)
    for di, items in list(batch.items()):
        flush(ctx, items, di)
    # ---------------------------------------------------------------- documented spellings with the literal on the LEFT of the comparison
    # (docs/KNOWN_ISSUES.md: `2 > %no_of_instances`, `2 > count(Instances.*)`; docs/FUNCTIONS.md: `1 == %converted`)
    if ctx.mine(0):
        ldoc = json.dumps({"l": [1], "s": "1"})
        for form, mirror in (("2 > %n", "%n < 2"), ("1 == %n", "%n == 1"), ("2 > count(l)", "%n < 2")):
            a_ = "rule r {\n    let n = count(l)\n    %s\n}\n" % form
            b_ = "rule r {\n    let n = count(l)\n    %s\n}\n" % mirror
            sa_, _fa, ra_ = tool_statuses(ctx.w, a_, ldoc)
            sb_, _fb, _rb = tool_statuses(ctx.w, b_, ldoc)
            ctx.res.cases += 1
            if sa_ == "crash" or sb_ == "crash":
                ctx.inconclusive("crash (C08)")
            elif sa_ == "parse-error" and isinstance(sb_, dict):
                ctx.violation("documented-form:literal-on-the-left:rejected", "the documented spelling `%s` is rejected by the parser (its mirror image `%s` evaluates to %s): %s" % (
                    form, mirror, sb_.get("r"), ra_.get("err", "")[:160]), {"rules": a_, "data": ldoc, "ast": None})
            elif sa_ != sb_:
                ctx.violation("documented-form:literal-on-the-left:verdict", "`%s` gives %s, `%s` gives %s" % (form, sa_, mirror, sb_), {"rules": a_, "data": ldoc, "ast": None})
            else:
                ctx.res.distinct.add(("literal-on-the-left", form))
    # ---------------------------------------------------------------- filters on SCALAR elements (`ports[*][ this > 1024 ] <= 65535`; docs/QUERY_AND_FILTERING.md):
    # inside the filter `this` is the element; the clause then judges the selected elements (nothing selected -> SKIP). Small model in place.
    if ctx.mine(1):
        import operator as _op
        CMP = {">": _op.gt, ">=": _op.ge, "<": _op.lt, "<=": _op.le, "==": _op.eq, "!=": _op.ne}
        sdocs = [[80, 8080, 70000], [80], 8080, [2000, 3000], [1024, 1025], 70000, [5, 5, 5], 0]
        for lv in sdocs:
            elems = lv if isinstance(lv, list) else [lv]
            sdoc = json.dumps({"spec": {"ports": lv}})
            lines, expect = [], {}
            k = 0
            for fop, fth in ((">", 1024), ("<=", 80), ("==", 5), ("!=", 8080), (">=", 70000)):
                for cop, cth in (("<=", 65535), ("==", 8080), (">", 100), ("!=", 5)):
                    for some in (False, True):
                        for star in ("[*]", "") if isinstance(lv, list) else ("[*]",):
                            name = "f%d" % k
                            k += 1
                            lines.append("rule %s {\n    %sspec.ports%s[ this %s %d ] %s %d\n}\n" % (name, "some " if some else "", star, fop, fth, cop, cth))
                            sel = [x for x in elems if CMP[fop](x, fth)]
                            if not sel:
                                expect[name] = "SKIP"
                            elif some:
                                expect[name] = "PASS" if any(CMP[cop](x, cth) for x in sel) else "FAIL"
                            else:
                                expect[name] = "PASS" if all(CMP[cop](x, cth) for x in sel) else "FAIL"
            text = "".join(lines)
            st, _fs, _r = tool_statuses(ctx.w, text, sdoc)
            ctx.res.cases += len(lines)
            ctx.res.counts["scalar_filter_clauses"] += len(lines)
            if not isinstance(st, dict):
                ctx.inconclusive("scalar-filter-gadget:" + str(st))
                continue
            bad = {n_: (st.get(n_), e_) for n_, e_ in expect.items() if st.get(n_) != e_}
            if bad:
                n0 = sorted(bad)[0]
                ctx.violation("scalar-filter:this-is-the-element", "filter on scalar elements: %d of %d clauses differ from the model, e.g. %s tool=%s model=%s on %s" % (
                    len(bad), len(expect), [l for l in lines if l.startswith("rule %s " % n0)][0].replace("\n", " "), bad[n0][0], bad[n0][1], sdoc),
                    {"rules": text, "data": sdoc, "ast": None, "expect": expect})
            else:
                for e_ in set(expect.values()):
                    ctx.res.distinct.add(("scalar-filter", type(lv).__name__, e_))
    # ---------------------------------------------------------------- (B) random programs
    rng = ctx.rng("c01")
    n = 330 if ctx.quick else 60000
    o = gen.Opts(types=True, calls=True, rhs_query=False, msgs=False, some_lets=True)
    o.unary_w = 0.4
    for t in range(n):
        doc = gen.gen_doc(rng)
        docs = json.dumps(doc)
        o.interp = t % 3 == 0          # every third program may take keys from variables (`a.%k`)
        o.keys_filters = t % 2 == 0    # every second one may filter maps by key name (`[ keys == | != | in | not in .. ]`)
        f = gen.gen_file(rng, doc, o)
        if any(p_[0] == "varkey" for p_ in _all_parts(f)):
            ctx.res.counts["programs_with_key_interpolation"] += 1
        if '["keysfilter"' in json.dumps(f):
            ctx.res.counts["programs_with_keys_filters"] += 1
        r = judge_file(ctx, f, doc, docs, "random")
        if r in (None, "agree"):
            if r == "agree":
                ctx.res.distinct.add(("random", len(f["rules"]), bool(f.get("default"))))
            continue
        kind, a, b = r
        text = gen.pfile(f)
        case = {"rules": text, "data": docs, "ast": f}
        if kind == "status":
            # shrink: report the first differing rule with a per-rule signature
            name = sorted(a)[0]
            got, want = a[name]
            ctx.violation("random:tool=%s:reference=%s" % (got, want), "rule %s: tool %s, documented semantics %s\n%s--- doc %s" % (name, got, want, text, docs[:400]), case)
        elif kind == "error":
            ctx.violation("random:unexpected-evaluation-error", "tool raised %r, the documented semantics defines statuses %s\n%s--- doc %s" % (b, a, text, docs[:400]), case)
        else:
            ctx.violation("random:missing-evaluation-error", "documented semantics is undefined here (error expected: %s) but the tool reports %s\n%s--- doc %s" % (a, b, text, docs[:400]), case)
        if len(ctx.res.samples) < 1:
            ctx.sample({"rules": text[:500], "doc": doc})


def _all_parts(f):
    s = json.dumps(f)
    return [["varkey"]] if '["varkey"' in s else []


def flush(ctx, items, di):
    doc = DOCS[di]
    docs = json.dumps(doc)
    rules = [gen.rule("r%d" % i, [[cl]]) for i, (qn, cl, cls) in enumerate(items)]
    f = {"lets": [], "default": [], "rules": rules}
    text = gen.pfile(f)
    st, fs, res = tool_statuses(ctx.w, text, docs)
    per_rule = st if isinstance(st, dict) else None
    for i, (qn, cl, cls) in enumerate(items):
        name = "r%d" % i
        f1 = {"lets": [], "default": [], "rules": [gen.rule("r", [[cl]])]}
        ref, rfs = refint.Interp(f1, doc).run()
        want = ref["r"]
        ctx.res.cases += 1
        if want == "UNSPEC":
            ctx.res.counts["unspec"] += 1
            continue
        if per_rule is not None:
            got = per_rule.get(name)
        else:
            s1, fs1, r1 = tool_statuses(ctx.w, gen.pfile(f1), docs)
            if s1 == "crash":
                ctx.inconclusive("crash (C08)")
                continue
            got = s1.get("r") if isinstance(s1, dict) else ("ERROR" if s1 == "error" else "PARSE-ERROR")
        opd = ("not " if cl.get("neg") else "") + ("some " if cl.get("some") else "") + ("!" if cl.get("opneg") else "") + cl["op"]
        klass = (cls[0], cls[1], bool(cl.get("neg")) != bool(cl.get("opneg")), bool(cl.get("some")), qn, want)
        ctx.res.distinct.add(klass)
        ctx.res.counts["status:" + want] += 1
        if got != want:
            sig = "single:%s:%s:%s:q=%s%s:tool=%s:reference=%s" % (cls[0], cls[1], "negated" if klass[2] else "plain", qn, ":lit=" + cls[2] if len(cls) > 2 else "", got, want)
            ctx.violation(sig, "clause `%s` on doc#%d: tool %s, documented semantics %s" % (gen.pclause(cl), di, got, want),
                          {"rules": gen.pfile(f1), "data": docs, "ast": f1})
        elif len(ctx.res.samples) < 3 and want in ("FAIL", "SKIP"):
            ctx.sample({"clause": gen.pclause(cl), "doc": di, "tool": got, "reference": want})


def replay(case, w):
    if case.get("ast") is None and case.get("expect"):
        st, fs, res = tool_statuses(w, case["rules"], case["data"])
        if not isinstance(st, dict):
            return False, str(st)
        bad = {k: (st.get(k), v) for k, v in case["expect"].items() if st.get(k) != v}
        return not bad, "differences (tool, model): %s" % dict(sorted(bad.items())[:5])
    if case.get("ast") is None:
        st, fs, res = tool_statuses(w, case["rules"], case["data"])
        return isinstance(st, dict), "the documented form %s" % ("evaluates" if isinstance(st, dict) else "is rejected: " + str(st))
    f = case["ast"]
    doc = json.loads(case["data"])
    ref, rfs = refint.Interp(f, doc).run()
    st, fs, res = tool_statuses(w, case["rules"], case["data"])
    if st in ("crash", "parse-error"):
        return False, st
    if st == "error":
        return rfs in ("ERROR", "UNSPEC"), "tool error, reference %s" % rfs
    if rfs == "ERROR":
        return False, "reference expects an evaluation error"
    bad = {k: (st.get(k), v) for k, v in ref.items() if v != "UNSPEC" and st.get(k) != v}
    return not bad, "differences (tool, reference): %s" % bad


def main(tier, seed):
    t0 = time.time()
    core.build()
    res = core.run_shards(shard, seed, tier, "C01")
    c = res.counts
    seen = sum(1 for s in ("PASS", "FAIL", "SKIP", "ERROR") if c["status:" + s] > 0)
    unspec_pct = int(100 * c["unspec"] / max(1, res.cases))
    floor = {"cases": (res.cases, 20000), "statuses_seen": (seen, 4), "distinct_classes": (len(res.distinct), 2000), "decided_percent": (100 - unspec_pct, 60)}
    return core.finish("C01", tier, seed, res, t0,
                       rule="(A) exhaustive: 44 query shapes (14 of them map-key filters, 4 with digits-only keys) x some/all x (9 unary operators x 4 polarity spellings + 6 binary operators x 3 polarity spellings x up to 14 "
                            "literals) x 3 documents = every single-clause program of that universe; (B) random core-language programs x random documents (quick 5k, "
                            "thorough 250k); judged by the reference interpreter; distinct = (kind, operator, effective polarity, some, query shape, status)",
                       floor=floor, exhaustive=True,
                       extra_cov={"unspec_percent": unspec_pct},
                       assumptions=["the reference interpreter abstains on the UNSPEC zones of DESIGN.md 5.3 (counted as unspec)",
                                    "query right-hand sides, functions and parameterised rules are outside this check (C13/C15/C18 cover them)"])
