"""C12 - evaluations are isolated: each (rules file, data file) pair stands alone.

A batch (1..3 rules files x 1..4 data files; explicit files in several orders, directories with -a / -m,
payload lists; plain and structured mode) is compared pair by pair with the same pairs validated alone.
Rules files deliberately share variable and rule names with different definitions and the documents
differ exactly in the queried keys, so a leaked memo flips a verdict. The verif-hooks stream shows one
root scope per pair and no memo hit before a miss inside a scope. Same for the cases of a `test` file.
"""
import itertools
import json
import re
import time

from .. import core, gen, obs


FORCE_BLANK = None      # replay: the blank rules file of the recorded case (False = none)


def make_batch(rng):
    """returns (rules texts, docs) - rules share names `v`, `dep`, `r0..`; docs differ in the keys they query"""
    keys = rng.sample(["a", "b", "c", "n", "k"], 3)
    vals = [1, 2, 5, "x", "y", True]
    ndocs = rng.randint(2, 4)
    volume = rng.random() < 0.3
    casevar = rng.random() < 0.3
    docs = []
    for i in range(ndocs):
        d = {k: rng.choice(vals) for k in keys}
        d["l"] = [rng.choice(vals) for _ in range(rng.randint(0, 3))]
        d["m"] = {"q": rng.choice(vals), "w": {"z": rng.choice(vals)}}
        if rng.random() < 0.3:
            del d[keys[0]]
        if volume:
            d["big"] = [{"g": rng.choice([0, 1, 2])} for _ in range(rng.randint(24, 40))]
        if casevar:
            # one spelling convention in some documents, two competing spellings of the same name in others: which entry a rule written in a
            # third spelling reaches must not depend on the documents evaluated before
            if i % 2 == 0:
                d["BucketName"] = "x"
            else:
                d["bucketName"] = "x"
                d["BucketName"] = "y"
                d["bucket-name"] = "z"
        docs.append(d)
    nr = rng.randint(1, 3)
    rules = []
    for i in range(nr):
        k1, k2 = rng.sample(keys, 2)
        v1, v2 = rng.choice(vals), rng.choice(vals)
        lines = ["let v = %s" % rng.choice([k1, "m.q", "l[*]", "m.w.z", k2]),
                 "let lit = %s" % gen.glit(rng.choice(vals)),
                 "rule dep {\n    %s == %s\n}" % (k1, gen.glit(v1)),
                 "rule r0 when dep {\n    %%v == %s or %s exists\n}" % (gen.glit(v2), k2),
                 "rule r1 {\n    not dep or %%v in [%s, %s]\n    l[ this == %%lit ] !empty or m.q == %%lit\n}" % (gen.glit(rng.choice(vals)), gen.glit(rng.choice(vals))),
                 "rule r2 {\n    %s {\n        let inner = this\n        %%inner == %s\n    }\n    dep\n}" % (rng.choice([k1, "m.w.z", "l[*]"]), gen.glit(rng.choice(vals)))]
        if rng.random() < 0.4:
            lines.append("rule r3 {\n    m[ cap | this exists ] exists\n    %cap !empty\n}")
        if volume:
            # many parameterised-rule calls per pair (plain and negated, passing and failing): whatever the evaluator counts per call
            # (nesting depth, recursion guards) must start afresh for every pair
            lines.append("rule pv(e, want) {\n    %%e.g == %%want\n}\nrule r4 {\n    big[*] {\n        not pv(this, %s)\n    }\n}\nrule r5 {\n    some big[*] {\n        pv(this, %s)\n    }\n}"
                         % (gen.glit(rng.choice(["none", 0, 1])), gen.glit(rng.choice([0, 1, 2]))))
        if casevar:
            lines.append("rule cvk {\n    bucket_name == \"x\"\n}\nrule cvk2 {\n    Bucket_Name == \"x\" or bucket_name == \"z\"\n}")
        # reads a key that only the --input-parameters document provides (when the batch has one): every pair must see it
        lines.append("rule rp {\n    zp == %s or zp !exists\n    zp exists or %s exists\n}" % (gen.glit(rng.choice(vals)), k1))
        rules.append("\n".join(lines) + "\n")
    if rng.random() < 0.35:
        # documents of different shapes in one run: some are CloudFormation templates (a `Resources` map), some plain settings files; how a pair
        # is rendered on the console depends on that pair's document only
        with_res = [rng.random() < 0.5 for _ in docs]
        with_res[rng.randrange(len(docs))] = True
        if all(with_res):
            with_res[rng.randrange(len(docs))] = False
        for d, wr in zip(docs, with_res):
            if wr:
                d["Resources"] = {"bucket%d" % k_: {"Type": "AWS::S3::Bucket", "Properties": {"Enc": rng.choice([True, False, False])}} for k_ in range(rng.randint(1, 2))}
        rules[0] += "rule res_enc {\n    Resources.*.Properties.Enc == true <<buckets are encrypted>>\n}\n"
    if rng.random() < 0.4:
        # a last rules file that every document satisfies: the run as a whole still fails iff some earlier pair fails
        rules.append("rule zz_always {\n    this exists\n    m exists or l exists\n}\n")
    return rules, docs


def report_key(rep):
    """comparable form of one FileReport (names of data files and line/column details removed)"""
    r = dict(rep)
    r.pop("name", None)
    s = json.dumps(r, sort_keys=True)
    s = re.sub(r"\[L:\d+,C:\d+\]", "[L,C]", s)
    s = re.sub(r"Location \{ line: \d+, col: \d+ \}", "Location", s)
    s = re.sub(r"RULES_STDIN\[\d+\]", "RFILE", s)
    s = re.sub(r"DATA_STDIN\[\d+\]", "FILE", s)
    s = re.sub(r"/SCRATCH/[^\s\"\]\\,)]*", "FILE", s)
    s = re.sub(r"file:[^,\]]*", "file:F", s)
    return s


def parse_docs(out):
    """sequence of JSON documents printed one after another"""
    dec = json.JSONDecoder()
    pos, docs = 0, []
    while True:
        m = re.compile(r"\{").search(out, pos)
        if not m:
            break
        try:
            d, end = dec.raw_decode(out, m.start())
        except ValueError:
            return None
        docs.append(d)
        pos = end
    return docs


def check_events(ctx, events, npairs, case, label):
    sr = sum(1 for e in events if e == "SR")
    ctx.res.counts["root_scopes"] += sr
    if sr != npairs:
        ctx.violation("hooks:%s:root-scopes" % label, "%d root scopes created for %d (rules, data) pairs" % (sr, npairs), case)
        return
    seen_var, seen_rule = {}, set()
    for e in events:
        if e == "SR":
            seen_var, seen_rule = {}, set()
            continue
        t = e.split("|")
        if t[0] == "V" and t[1] == "root":
            if t[3] == "memo" and t[2] not in seen_var:
                ctx.violation("hooks:%s:memo-hit-before-miss" % label, "variable %s served from the memo as its first resolution in a fresh root scope" % t[2], case)
                return
            seen_var[t[2]] = True
        elif t[0] == "K":
            seen_var[t[1]] = True
        elif t[0] == "R":
            if t[2] == "hit" and t[1] not in seen_rule:
                ctx.violation("hooks:%s:rule-memo-hit-before-miss" % label, "rule status of %s served from the memo before it was computed in this scope" % t[1], case)
                return
            if t[2] == "miss":
                seen_rule.add(t[1])


def shard(ctx):
    rng = ctx.rng("c12")
    n = 28 if ctx.quick else 800
    for t in range(n):
        rules, docs = make_batch(rng)
        # batches with competing key spellings: every stand-alone pair (and the batch) runs in a process of its own
        fresh_singles = any("bucket-name" in d for d in docs)
        ctx.res.counts["batches_with_fresh_process_singletons"] += 1 if fresh_singles else 0
        dtexts = [json.dumps(d) for d in docs]
        nr, nd = len(rules), len(docs)
        # half of the batches carry an --input-parameters document (merged into every data file)
        with_params = rng.random() < 0.5
        PF = {"params/p.json": json.dumps({"zp": rng.choice([1, 2, 5, "x", "y", True])})} if with_params else {}
        IT = ["-i", "{S}/params/p.json"] if with_params else []
        ctx.res.counts["batches_with_input_parameters"] += 1 if with_params else 0
        # data files either have distinct names or share one base name in different directories (still different files)
        same_base = rng.random() < 0.5
        ctx.res.counts["batches_data_same_base_name"] += 1 if same_base else 0

        def DN(j):
            return ("g%d/template.json" % j) if same_base else ("d%d.json" % j)
        # ---- singletons (same front end, same file names)
        single_s, single_p, crashed = {}, {}, False
        for i, rt in enumerate(rules):
            for j, dt in enumerate(dtexts):
                fl = dict(PF, **{"r%d.guard" % i: rt, "data/" + DN(j): dt})
                a = ["validate", "-r", "{S}/r%d.guard" % i, "-d", "{S}/data/" + DN(j)] + IT
                if fresh_singles:
                    ctx.w.close()           # "validated alone" in the strict sense: a process that has evaluated nothing before
                rs = ctx.w.run({"k": "cli", "argv": a + ["--structured", "-S", "none", "-o", "json"], "files": fl})
                rp = ctx.w.run({"k": "cli", "argv": a + ["-S", "none", "-o", "json"], "files": fl})
                if rs.get("r") != "ok" or rp.get("r") != "ok":
                    # the pair alone does not evaluate HERE - does it in a process that has evaluated nothing before?
                    ctx.w.close()
                    rs2 = ctx.w.run({"k": "cli", "argv": a + ["--structured", "-S", "none", "-o", "json"], "files": fl})
                    ctx.w.close()
                    rp2 = ctx.w.run({"k": "cli", "argv": a + ["-S", "none", "-o", "json"], "files": fl})
                    if rs2.get("r") == "ok" and rp2.get("r") == "ok" and not core.crash_signature(rs) and not core.crash_signature(rp):
                        ctx.violation("singleton:depends-on-earlier-evaluations", "a (rules, data) pair validated alone fails after other evaluations in the same process (%s) "
                                      "but evaluates in a fresh process" % (rs.get("emsg") or rp.get("emsg") or rs.get("err") or rp.get("err") or "")[:200],
                                      {"rules": rules, "data": dtexts, "cfg": "fresh"})
                    crashed = True
                    break
                try:
                    single_s[(i, j)] = (report_key(json.loads(rs["out"])[0]), rs["code"])
                    single_p[(i, j)] = (report_key(parse_docs(rp["out"])[0]), rp["code"])
                except (ValueError, IndexError, TypeError):
                    crashed = True
                    break
            if crashed:
                break
        if crashed:
            ctx.inconclusive("singleton-error-or-crash")
            continue
        want_exit = 19 if any(c == 19 for _, c in single_p.values()) else 0
        differ = len({single_p[(i, j)][0] for i in range(nr) for j in range(nd)}) > 1
        ctx.res.counts["batches_with_differing_pairs"] += 1 if differ else 0
        fl = dict(PF)
        for i, rt in enumerate(rules):
            fl["rules/r%d.guard" % i] = rt
        for j, dt in enumerate(dtexts):
            fl["data/" + DN(j)] = dt
        orders = []
        ro, do = list(range(nr)), list(range(nd))
        for k in range(3 if ctx.quick else 5):
            a, b = ro[:], do[:]
            if k:
                rng.shuffle(a)
                rng.shuffle(b)
            orders.append((a, b))
        # 40% of the batches also hold a rules file that is empty or blank: it contributes no pair, and the files given (or walked) after it
        # still do
        blank = FORCE_BLANK if FORCE_BLANK is not None else (rng.choice(["", "  \n\n", "\n"]) if rng.random() < 0.4 else None)
        if blank is not None and blank is not False:
            fl["rules/a_blank.guard"] = blank
            ctx.res.counts["batches_with_blank_rules_file"] += 1
        base_case = {"rules": rules, "data": dtexts, "blank": blank if blank is not None else False}
        for (a, b) in orders:
            if fresh_singles:
                ctx.w.close()
            rargs = [x for i in a for x in ("-r", "{S}/rules/r%d.guard" % i)]
            if blank is not None and blank is not False:
                pos_ = 2 * rng.randrange(len(a) + 1)
                rargs[pos_:pos_] = ["-r", "{S}/rules/a_blank.guard"]
            dargs = [x for j in b for x in ("-d", "{S}/data/" + DN(j))]
            # plain mode: one report per (rules, data), rules-major
            r = ctx.w.run({"k": "cli", "argv": ["validate"] + rargs + dargs + IT + ["-S", "none", "-o", "json"], "files": fl, "events": True})
            ctx.res.cases += 1
            case = dict(base_case, mode="plain-files", order=[a, b])
            if r.get("r") != "ok":
                ctx.inconclusive("batch-error-or-crash")
            else:
                reps = parse_docs(r["out"])
                exp = [single_p[(i, j)][0] for i in a for j in b]
                if reps is None or len(reps) != len(exp):
                    ctx.violation("plain-files:report-count", "batch printed %s reports for %d pairs" % (None if reps is None else len(reps), len(exp)), case)
                else:
                    got = [report_key(x) for x in reps]
                    bad = [k for k, (g, e) in enumerate(zip(got, exp)) if g != e]
                    if bad:
                        k = bad[0]
                        ctx.violation("plain-files:pair-differs", "pair #%d (rules r%d, data d%d) differs from its stand-alone report" % (k, a[k // len(b)], b[k % len(b)]), case)
                    elif r["code"] != want_exit:
                        ctx.violation("plain-files:exit", "batch exit %s, pairs imply %s" % (r["code"], want_exit), case)
                    else:
                        ctx.res.distinct.add(("plain-files", nr, nd, r["code"]))
                check_events(ctx, r.get("events") or [], nr * nd, case, "plain")
            # console summary (`--show-summary all`): the status printed in the header of every (rules, data) block is that pair's own status
            if not (blank is not None and blank is not False):
                rc_ = ctx.w.run({"k": "cli", "argv": ["validate"] + rargs + dargs + IT + ["-S", "all"], "files": fl})
                ctx.res.cases += 1
                if rc_.get("r") == "ok":
                    heads = re.findall(r"^.* Status = (PASS|FAIL|SKIP)\s*$", re.sub(r"\x1b\[[0-9;]*m", "", rc_["out"]), re.M)
                    try:
                        exp_h = [json.loads(single_s[(i, j)][0]).get("status") for i in a for j in b]
                    except (ValueError, KeyError):
                        exp_h = None
                    if exp_h is not None and len(heads) == len(exp_h):
                        ctx.res.counts["console_block_headers_compared"] += len(heads)
                        if heads != exp_h:
                            ctx.violation("plain-console:block-status", "the summary headers of the batch read %s, the pairs validated alone are %s" % (heads, exp_h), dict(base_case, mode="plain-console", order=[a, b]))
                        else:
                            ctx.res.distinct.add(("plain-console", tuple(sorted(set(heads)))))
                        if heads == exp_h and any("Resources" in d_ for d_ in docs) and not any("Resources" in d_ for d_ in docs[:0]):
                            # documents of mixed shapes: the whole console block of every pair equals the console output of the pair validated alone
                            def norm_console(t_):
                                t_ = re.sub(r"\x1b\[[0-9;]*m", "", t_)
                                t_ = re.sub(r"\S*/(r\d+\.guard)", r"\1", t_)
                                return [l_.rstrip() for l_ in t_.split("\n") if l_.strip()]

                            def bag(ls_):
                                # C05 allows independent detail lines of console output to come in any order: compare the blocks as multisets of lines
                                return sorted(ls_)
                            lines_ = norm_console(rc_["out"])
                            starts = [k_ for k_, l_ in enumerate(lines_) if re.match(r"^.* Status = (PASS|FAIL|SKIP)$", l_)]
                            blocks = [lines_[s_:e_] for s_, e_ in zip(starts, starts[1:] + [len(lines_)])]
                            pairs_ = [(i, j) for i in a for j in b]
                            for (i, j), blk in zip(pairs_, blocks):
                                fl1 = dict(PF, **{"r%d.guard" % i: rules[i], "data/" + DN(j): dtexts[j]})
                                r1_ = ctx.w.run({"k": "cli", "argv": ["validate", "-r", "{S}/r%d.guard" % i, "-d", "{S}/data/" + DN(j)] + IT + ["-S", "all"], "files": fl1})
                                ctx.res.cases += 1
                                if r1_.get("r") != "ok":
                                    continue
                                alone = norm_console(r1_["out"])
                                ctx.res.counts["console_blocks_compared"] += 1
                                if bag(alone) != bag(blk):
                                    diff_ = [x for x in blk if x not in alone][:2] + ["<>"] + [x for x in alone if x not in blk][:2]
                                    ctx.violation("plain-console:block-text", "the console block of (r%d, %s) in the batch differs from the pair validated alone: %s" % (i, DN(j), diff_),
                                                  dict(base_case, mode="plain-console", order=[a, b]))
                                    break
            # structured mode: one report per data file = union over the rules files
            r = ctx.w.run({"k": "cli", "argv": ["validate"] + rargs + dargs + IT + ["--structured", "-S", "none", "-o", "json"], "files": fl, "events": True})
            ctx.res.cases += 1
            case = dict(base_case, mode="structured-files", order=[a, b])
            if r.get("r") != "ok":
                ctx.inconclusive("batch-error-or-crash")
            else:
                try:
                    reps = json.loads(r["out"])
                except ValueError:
                    reps = None
                if reps is None or len(reps) != nd:
                    ctx.violation("structured-files:report-count", "structured batch has %s reports for %d data files" % (None if reps is None else len(reps), nd), case)
                else:
                    okb = True
                    for pos, j in enumerate(b):
                        rep = reps[pos]
                        # every rules file contributes its not_compliant entries; compare as multisets
                        nc_exp = union_entries([single_s[(i, j)][0] for i in a])
                        nc_got = union_entries([report_key(rep)])
                        if nc_got != nc_exp:
                            ctx.violation("structured-files:pair-differs", "report of data d%d differs from the union of its stand-alone pair reports" % j, case)
                            okb = False
                            break
                    if okb and r["code"] != want_exit:
                        ctx.violation("structured-files:exit", "batch exit %s, pairs imply %s" % (r["code"], want_exit), case)
                    elif okb:
                        ctx.res.distinct.add(("structured-files", nr, nd, r["code"]))
                check_events(ctx, r.get("events") or [], nr * nd, case, "structured")
        # ---- structured junit / sarif: what a batch says about one data file == what the stand-alone run of that file says
        a, b = orders[-1]
        rargs = [x for i in ro for x in ("-r", "{S}/rules/r%d.guard" % i)]
        dargs = [x for j in b for x in ("-d", "{S}/data/" + DN(j))]
        for fmt in ("junit", "sarif"):
            singles = {}
            for j in do:
                r1 = ctx.w.run({"k": "cli", "argv": ["validate"] + rargs + IT + ["-d", "{S}/data/" + DN(j), "--structured", "-S", "none", "-o", fmt], "files": fl})
                singles[j] = per_data_units(fmt, r1.get("out", "")) if r1.get("r") == "ok" else None
            r = ctx.w.run({"k": "cli", "argv": ["validate"] + rargs + dargs + IT + ["--structured", "-S", "none", "-o", fmt], "files": fl})
            ctx.res.cases += 1
            case = dict(base_case, mode="structured-" + fmt, order=[ro, b])
            if r.get("r") != "ok" or any(v is None for v in singles.values()):
                ctx.inconclusive("batch-error-or-crash")
                continue
            units = per_data_units(fmt, r["out"])
            if units is None:
                ctx.violation("structured-%s:malformed" % fmt, "batch %s output does not parse" % fmt, case)
                continue
            exp = {}
            for j in do:
                for name, u in (singles[j] or {}).items():
                    exp[name] = u
            if units != exp:
                diff = sorted(k for k in set(units) | set(exp) if units.get(k) != exp.get(k))
                ctx.violation("structured-%s:pair-differs" % fmt, "what the batch reports for %s differs from the stand-alone run of that data file: batch %s vs alone %s" % (
                    diff[:2], [units.get(k) for k in diff[:1]], [exp.get(k) for k in diff[:1]]), case)
            elif r["code"] != want_exit:
                ctx.violation("structured-%s:exit" % fmt, "batch exit %s, pairs imply %s" % (r["code"], want_exit), case)
            else:
                ctx.res.distinct.add(("structured-" + fmt, nr, nd, r["code"], len(units)))
        # ---- directories with -a and -m (mtimes force an order different from the alphabetical one)
        mt = {}
        perm = do[:]
        rng.shuffle(perm)
        same_mtime = rng.random() < 0.3       # files written in one tick (a checkout, `cp -p`): identical modification times
        ctx.res.counts["batches_with_identical_mtimes"] += 1 if same_mtime else 0
        for rank, j in enumerate(perm):
            mt["data/" + DN(j)] = 1000000 + (0 if same_mtime else rank * 100)
        for flag in ("-a", "-m"):
            r = ctx.w.run({"k": "cli", "argv": ["validate", "-r", "{S}/rules", "-d", "{S}/data", flag, "-S", "none", "-o", "json"] + IT, "files": fl, "mtimes": mt})
            ctx.res.cases += 1
            case = dict(base_case, mode="dirs" + flag, mtimes=mt)
            if r.get("r") != "ok":
                ctx.inconclusive("batch-error-or-crash")
                continue
            reps = parse_docs(r["out"])
            exp = sorted(single_p[(i, j)][0] for i in ro for j in do)
            if reps is None or sorted(report_key(x) for x in reps) != exp:
                ctx.violation("dirs%s:pair-differs" % flag, "directory batch (%s) differs from the stand-alone pair reports (as a multiset)" % flag, case)
            elif r["code"] != want_exit:
                ctx.violation("dirs%s:exit" % flag, "exit %s, pairs imply %s" % (r["code"], want_exit), case)
            else:
                ctx.res.distinct.add(("dirs" + flag, nr, nd, r["code"]))
        # ---- payload lists
        for extra, mode in ((["-S", "none", "-o", "json"], "payload-plain"), (["--structured", "-S", "none", "-o", "json"], "payload-structured")):
            r = ctx.w.run({"k": "cli", "argv": ["validate", "--payload"] + extra + IT, "files": PF, "stdin": json.dumps({"rules": rules, "data": dtexts})})
            ctx.res.cases += 1
            case = dict(base_case, mode=mode)
            if r.get("r") != "ok":
                ctx.inconclusive("batch-error-or-crash")
                continue
            if mode == "payload-plain":
                reps = parse_docs(r["out"])
                exp = [single_p[(i, j)][0] for i in ro for j in do]
                got = [report_key(x) for x in reps] if reps is not None else None
                if got != exp:
                    ctx.violation("payload-plain:pair-differs", "payload batch differs from the stand-alone pair reports", case)
                elif r["code"] != want_exit:
                    ctx.violation("payload-plain:exit", "exit %s, pairs imply %s" % (r["code"], want_exit), case)
                else:
                    ctx.res.distinct.add((mode, nr, nd, r["code"]))
            else:
                try:
                    reps = json.loads(r["out"])
                    bad = False
                    for j in do:
                        if union_entries([report_key(reps[j])]) != union_entries([single_s[(i, j)][0] for i in ro]):
                            bad = True
                    if bad:
                        ctx.violation("payload-structured:pair-differs", "payload structured batch differs from the stand-alone pair reports", case)
                    elif r["code"] != want_exit:
                        ctx.violation("payload-structured:exit", "exit %s, pairs imply %s" % (r["code"], want_exit), case)
                    else:
                        ctx.res.distinct.add((mode, nr, nd, r["code"]))
                except (ValueError, IndexError):
                    ctx.violation("payload-structured:malformed", "payload structured output malformed", case)
        # ---- test command: k cases in one file == k single-case files
        rt = rules[0]
        names = re.findall(r"^rule (\w+)", rt, re.M)
        specs = [{"name": "case%d" % j, "input": d, "expectations": {"rules": {nme: rng.choice(["PASS", "FAIL", "SKIP"]) for nme in names}}} for j, d in enumerate(docs)]
        rb = ctx.w.run({"k": "cli", "argv": ["test", "-r", "{S}/r.guard", "-t", "{S}/t.json", "-o", "json"], "files": {"r.guard": rt, "t.json": json.dumps(specs)}, "events": True})
        ctx.res.cases += 1
        case = dict(base_case, mode="test", specs=specs)
        if rb.get("r") == "ok":
            try:
                batch_cases = json.loads(rb["out"])["test_cases"]
                singles = []
                for sp in specs:
                    r1 = ctx.w.run({"k": "cli", "argv": ["test", "-r", "{S}/r.guard", "-t", "{S}/t.json", "-o", "json"], "files": {"r.guard": rt, "t.json": json.dumps([sp])}})
                    singles.append(json.loads(r1["out"])["test_cases"][0])

                def norm(tc):
                    return (tc.get("name"), sorted(json.dumps(x, sort_keys=True) for x in tc.get("passed_rules", [])),
                            sorted(json.dumps(x, sort_keys=True) for x in tc.get("failed_rules", [])),
                            sorted(json.dumps(x, sort_keys=True) for x in tc.get("skipped_rules", [])))
                if [norm(x) for x in batch_cases] != [norm(x) for x in singles]:
                    ctx.violation("test:case-differs", "a test case inside a %d-case file differs from the same case run alone" % len(specs), case)
                else:
                    ctx.res.distinct.add(("test", len(specs), rb["code"]))
                check_events(ctx, rb.get("events") or [], len(specs), case, "test")
            except (ValueError, KeyError, IndexError, TypeError):
                ctx.inconclusive("test-output-unparsable")
        else:
            ctx.inconclusive("test-error-or-crash")
        if len(ctx.res.samples) < 2:
            ctx.sample({"rules_files": nr, "data_files": nd, "first_rules_file": rules[0][:400], "docs": docs[:2], "expected_exit": want_exit})


def entries(key):
    """multiset of comparable items of a normalised FileReport key: names + not_compliant entries"""
    d = json.loads(key)
    out = []
    for n in d.get("compliant", []):
        out.append("C:" + n)
    for n in d.get("not_applicable", []):
        out.append("N:" + n)
    for e in d.get("not_compliant", []):
        out.append("F:" + json.dumps(e, sort_keys=True))
    return out


def per_data_units(fmt, out):
    """{data file name: everything the output says about that data file} for --structured junit / sarif"""
    import xml.etree.ElementTree as ET
    # each job has its own scratch directory (SARIF prints it without the leading slash, so the worker's /SCRATCH substitution misses it)
    out = re.sub(r"/?(?:[\w./-]*target/scratch/w\d+/j\d+|SCRATCH)/", "S/", out)
    try:
        if fmt == "junit":
            root = ET.fromstring(out)
            units = {}
            for ts in root.findall("./testsuite"):
                cases = sorted((tc.get("name"), tc.get("status"), tuple(sorted((ch.tag, ch.get("message"), (ch.text or "").strip()) for ch in tc))) for tc in ts.findall("./testcase"))
                units[ts.get("name")] = (ts.get("errors"), ts.get("failures"), tuple(cases))
            return units
        d = json.loads(out)
        units = {}
        for res in d["runs"][0]["results"]:
            uri = res["locations"][0]["physicalLocation"]["artifactLocation"]["uri"]
            units.setdefault(uri, []).append(json.dumps(res, sort_keys=True))
        return {k: tuple(sorted(v)) for k, v in units.items()}
    except (ET.ParseError, ValueError, KeyError, IndexError, TypeError):
        return None


def union_entries(keys):
    """what the combined report of several rules files must contain: compliant / not_applicable are name SETS
    (same-named rules of different files collapse), not_compliant entries accumulate"""
    names, fails = set(), []
    for k in keys:
        for x in entries(k):
            if x[0] in "CN":
                names.add(x)
            else:
                fails.append(x)
    return sorted(names) + sorted(fails)


def replay(case, w):
    res = core.ShardResult()
    found = []

    class Ctx(core.Ctx):
        def violation(self, sig, what, rp):
            found.append(sig)
    import random
    c = Ctx(w, 0, 1, 1, "quick", res, {"prop": "C12"})
    global make_batch, FORCE_BLANK
    orig = make_batch
    FORCE_BLANK = case.get("blank", False)
    try:
        make_batch = lambda rng: (case["rules"], [json.loads(d) for d in case["data"]])
        c.rng = lambda tag="": random.Random(7)

        class Stop(Exception):
            pass

        def stop(s, limit=3):
            raise Stop()
        c.sample = stop
        try:
            shard(c)
        except Stop:
            pass
    finally:
        make_batch = orig
        FORCE_BLANK = None
    return not found, "violations: %s" % sorted(set(found))


def main(tier, seed):
    t0 = time.time()
    core.build()
    res = core.run_shards(shard, seed, tier, "C12")
    floor = {"cases": (res.cases, 1500), "root_scopes_observed": (res.counts["root_scopes"], 1000),
             "batches_with_differing_pairs": (res.counts["batches_with_differing_pairs"], 100)}
    return core.finish("C12", tier, seed, res, t0,
                       rule="batches of 1-3 rules files (sharing variable/rule names, different definitions, key capture) x 2-4 documents differing in the queried "
                            "keys; explicit files in 3-5 random orders (plain and structured), directories with -a and -m (explicit mtimes), payload lists (plain and "
                            "structured), and multi-case test files; every pair compared with its stand-alone report; hooks: one root scope per pair, no memo hit "
                            "before a miss; distinct = (mode, #rules files, #data files, exit)",
                       floor=floor,
                       assumptions=["reports are compared after removing data-file names and line/column details",
                                    "in structured mode the same-named rules of several rules files are compared as multisets of entries"])
