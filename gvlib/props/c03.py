"""C03 - negation is honoured.

Metamorphic monitor (no reference semantics): for a clause C = `X op v`, the rules
  pos { X op v }   pre { not X op v }   bang { !X op v }   NOT { NOT X op v }
  opn { X !op v }  dbl { not X !op v }
are evaluated in ONE rules file on one document and must satisfy
  pre == bang == NOT == opn      (prefix negation == operator-level negation, all spellings)
  dbl == pos                     (two negations cancel)
and, when the generator knows from the model document that X selects exactly one value
comparable with v:  pre == flip(pos) (SKIP fixed);  `not X > v` == `X <= v` etc.
Named rules: `not R` is PASS exactly when R is not PASS.
"""
import json
import time

from .. import core, gen, obs

DOC = {"i": 5, "f": 1.5, "s": "ab", "b": True, "n": None, "l": [1, 2, 3], "ls": ["a", "b"], "le": [], "m": {"a": 1},
       "me": {}, "lm": [{"x": 1}, {"x": 2}, {"y": 3}], "nest": {"k": {"v": 2}}, "j": 5, "t": "ab", "l1": [5]}
DOCS = json.dumps(DOC)

# (query text, shape class, model single value or marker)
NOVAL = object()
LHS = [
    ("i", "single", 5), ("f", "single", 1.5), ("s", "single", "ab"), ("nest.k.v", "single", 2), ("b", "single", True),
    ("n", "single", None), ("m", "single", {"a": 1}), ("le", "single", []), ("me", "single", {}), ("l", "single-list", [1, 2, 3]),
    ("l[*]", "multi", NOVAL), ("ls[*]", "multi", NOVAL), ("lm[*].x", "multi-unresolved", NOVAL), ("zz", "missing", NOVAL),
    ("nest.zz.v", "missing", NOVAL), ("lm[ x == 99 ].x", "empty-filter", NOVAL), ("lm[ x == 1 ].x", "filter-one", NOVAL),
    ("l1[*]", "multi-one", NOVAL), ("m.*", "multi-one", NOVAL),
]
RHS = {
    "==": ["5", "6", "1.5", '"ab"', '"zz"', "true", "null", "[1, 2, 3]", "[5]", '{ "a": 1 }', "/^a/", "/zz/", "r[1,10]", "r(5,9)",
           "%lit5", "%litab", "j", "t", "zz", "l[*]", "%qj", "to_lower(t)", 'join(ls, "")', "count(l)", "count(l1[*])", "parse_int(%s5)", "lm[ x == 99 ].x", "%qe"],
    "<": ["5", "6", "4", "1.5", "2.5", '"b"', '"a"', "true", "%lit5", "j", "[6]", "count(l)", "parse_int(%s5)", "to_upper(t)", "lm[ x == 99 ].x", "%qe"],
    "<=": ["5", "4", "1.5", '"ab"', "j"],
    ">": ["5", "4", "6", "0.5", '"aa"', "%lit5", "j", "nest.k.v", "count(l)", "to_upper(t)"],
    ">=": ["5", "6", "1.5", '"ab"', "j", "parse_int(%s5)", "to_lower(t)"],
    "in": ["[5, 6]", "[1, 2]", "[1, 2, 3, 4]", '["ab", "cd"]', "[1.5]", "[true]", "[null]", "r[1,10]", "r(5,9]", "%litlist", "l", '"xaby"', "[[1, 2, 3]]",
           "l[*]", "ls", "ls[*]", "%ql", "%qls", "l1", "l1[*]", "lm[ x == 99 ].x", "%qe", "lm[ x == 99 ]"],      # the last three select nothing: SKIP under every spelling
}
UNARY = gen.UNARY
PRELUDE = 'let s5 = "5"\nlet lit5 = 5\nlet litab = "ab"\nlet litlist = [5, "ab"]\nlet qj = j\nlet ql = l\nlet qls = ls[*]\nlet qe = lm[ x == 99 ].x\n'
FLIP = {"PASS": "FAIL", "FAIL": "PASS", "SKIP": "SKIP"}
INV = {"<": ">=", "<=": ">", ">": "<=", ">=": "<"}


def typ(v):
    if v is None:
        return "null"
    if isinstance(v, bool):
        return "bool"
    if isinstance(v, int):
        return "int"
    if isinstance(v, float):
        return "float"
    if isinstance(v, str):
        return "str"
    if isinstance(v, list):
        return "list"
    return "map"


def rhs_model(txt):
    """model of a right-hand side: ('lit', value) / ('re',) / ('range','int'|'float') / None (unknown)"""
    table = {"5": 5, "6": 6, "4": 4, "1.5": 1.5, "2.5": 2.5, "0.5": 0.5, '"ab"': "ab", '"zz"': "zz", '"b"': "b", '"a"': "a",
             '"aa"': "aa", "true": True, "null": None, "%lit5": 5, "%litab": "ab", "j": 5, "t": "ab", "%qj": 5, "nest.k.v": 2,
             # inline function calls on the right-hand side
             "to_lower(t)": "ab", 'join(ls, "")': "ab", "count(l)": 3, "count(l1[*])": 1, "parse_int(%s5)": 5, "to_upper(t)": "AB"}
    if txt in table:
        return ("lit", table[txt])
    if txt.startswith("/"):
        return ("re",)
    if txt.startswith("r"):
        return ("range", "float" if "." in txt else "int")
    lists = {"[5, 6]": [5, 6], "[1, 2]": [1, 2], "[1, 2, 3, 4]": [1, 2, 3, 4], '["ab", "cd"]': ["ab", "cd"], "[1.5]": [1.5],
             "[true]": [True], "[null]": [None],
             # a list that comes from the document (query or query-bound variable on the right-hand side)
             "l": [1, 2, 3], "l[*]": [1, 2, 3], "ls": ["a", "b"], "ls[*]": ["a", "b"], "%ql": [1, 2, 3], "%qls": ["a", "b"], "l1": [5], "l1[*]": [5]}
    if txt in lists:
        return ("list", lists[txt])
    return None


def comparable_single(shape, val, op, rhs_txt):
    """does X select exactly one value comparable with the rhs (decided from the model)?"""
    if shape != "single" or val is NOVAL:
        return False
    if op in UNARY:
        if op == "empty":
            return isinstance(val, (str, list, dict)) and not isinstance(val, bool)
        return True
    m = rhs_model(rhs_txt)
    if m is None:
        return False
    t = typ(val)
    if op in ("<", "<=", ">", ">="):
        return m[0] == "lit" and typ(m[1]) == t and t in ("int", "float", "str")
    if op == "==":
        if m[0] == "lit":
            return typ(m[1]) == t and t in ("int", "float", "str", "bool", "null")
        if m[0] == "re":
            return t == "str"
        if m[0] == "range":
            return t == m[1]
        return False
    if op == "in":
        if m[0] == "list":
            return t in ("int", "float", "str", "bool", "null") and all(typ(x) == t for x in m[1])
        if m[0] == "range":
            return t == m[1]
    return False


def opneg_text(op):
    if op == "==":
        return "!="
    if op == "in":
        return "not in"
    if op in UNARY:
        return "not " + op
    return None


def build_group(q, some, op, rhs):
    sm = "some " if some else ""
    r = (" " + rhs) if rhs is not None else ""
    rules = {"pos": "%s%s %s%s" % (sm, q, op, r),
             "pre": "not %s%s %s%s" % (sm, q, op, r),
             "bang": "!%s%s %s%s" % (sm, q, op, r),
             "NOT": "NOT %s%s %s%s" % (sm, q, op, r)}
    on = opneg_text(op)
    if on:
        rules["opn"] = "%s%s %s%s" % (sm, q, on, r)
        rules["dbl"] = "not %s%s %s%s" % (sm, q, on, r)
        if op != "==":
            rules["opb"] = "%s%s !%s%s" % (sm, q, op, r)          # !in / !exists ...
            rules["opU"] = "%s%s NOT %s%s" % (sm, q, op.upper(), r)
    if op in INV:
        rules["inv"] = "%s%s %s%s" % (sm, q, INV[op], r)
    return rules


def eval_rules(ctx, rules, doc=DOCS, prelude=PRELUDE):
    text = prelude + "".join("rule %s {\n    %s\n}\n" % (n, c) for n, c in rules.items())
    res = ctx.w.run({"k": "rc", "data": doc, "rules": text, "verbose": False})
    kind, st, _ = obs.rc_statuses(res)
    if kind == "ok":
        return st, text
    if core.crash_signature(res):
        return None, text
    # evaluation error somewhere: evaluate every rule alone, ERR is a status of its own
    st = {}
    for n, c in rules.items():
        t1 = prelude + "rule %s {\n    %s\n}\n" % (n, c)
        r1 = ctx.w.run({"k": "rc", "data": doc, "rules": t1, "verbose": False})
        k1, s1, _ = obs.rc_statuses(r1)
        if k1 == "ok":
            st[n] = s1.get(n)
        elif core.crash_signature(r1):
            st[n] = "CRASH"
        elif "arser" in r1.get("err", "")[:80]:
            st[n] = "PARSE-ERR"
        else:
            st[n] = "ERR"
    return st, text


def judge(ctx, st, text, q, shape, val, some, op, rhs, doc=DOCS):
    opclass = "unary" if op in UNARY else "binary"
    pos = st.get("pos")
    ctx.res.cases += 1
    if "CRASH" in st.values():
        ctx.inconclusive("crash (C08 territory)")
        return
    if "PARSE-ERR" in st.values():
        # a documented negation spelling that does not parse is a violation of "never ignored"
        bad = [k for k, v in st.items() if v == "PARSE-ERR"]
        ctx.violation("parse:%s:%s" % (opclass, ",".join(sorted(bad))), "negation spelling not accepted: %s" % text,
                      {"rules": text, "data": doc, "law": "parse"})
        return
    ctx.res.distinct.add((op, some, shape, pos, st.get("pre")))
    ctx.res.extra.setdefault("op_form_seen", set()).add("%s:%s" % (op, pos))

    def viol(law, a, b):
        ctx.violation("%s:%s" % (law, opclass), "law %s broken: %s=%s vs %s=%s in\n%s" % (law, a, st.get(a), b, st.get(b), text),
                      {"rules": text, "data": doc, "law": law, "a": a, "b": b})

    ref = st.get("pre")
    for other in ("bang", "NOT"):
        if st.get(other) != ref:
            viol("spelling", "pre", other)
            return
    if "opn" in st:
        for other in ("opn", "opb", "opU"):
            if other in st and st[other] != ref:
                viol("prefix-eq-opnot", "pre", other)
                return
        if st.get("dbl") != pos:
            viol("double-negation", "dbl", "pos")
            return
    if pos in ("PASS", "FAIL", "SKIP") and comparable_single(shape, val, op, rhs) and not some:
        ctx.res.counts["flip_checked"] += 1
        if ref != FLIP[pos]:
            viol("flip", "pre", "pos")
            return
        if "inv" in st and st["inv"] != ref:
            viol("order-inverse", "pre", "inv")
            return
    if pos == "SKIP" and ref != "SKIP":
        viol("skip-stays-skip", "pre", "pos")
        return
    ctx.sample({"clause": "%s%s %s %s" % ("some " if some else "", q, op, rhs), "statuses": st}, limit=2)


def shard(ctx):
    idx = 0
    for (q, shape, val) in LHS:
        for some in (False, True):
            for op in list(RHS) + UNARY:
                rhss = RHS.get(op, [None])
                for rhs in rhss:
                    idx += 1
                    if not ctx.mine(idx):
                        continue
                    rules = build_group(q, some, op, rhs)
                    st, text = eval_rules(ctx, rules)
                    if st is None:
                        ctx.inconclusive("crash")
                        continue
                    judge(ctx, st, text, q, shape, val, some, op, rhs)

    # ---- named rules: `not R` PASS iff R != PASS, for R forced to each status, at rule body / when / when-block
    if ctx.mine(0):
        gad = {"PASS": "i == 5", "FAIL": "i == 6", "SKIP": "lm[ x == 99 ].x == 1"}
        for want, body in gad.items():
            for spelling in ("not ", "!", "NOT "):
                text = ("rule R {\n    %s\n}\nrule u {\n    R\n}\nrule n {\n    %sR\n}\n"
                        "rule wu when R {\n    i == 5\n}\nrule wn when %sR {\n    i == 5\n}\n"
                        "rule bu {\n    when R {\n        i == 5\n    }\n}\nrule bn {\n    when %sR {\n        i == 5\n    }\n}\n"
                        % (body, spelling, spelling, spelling))
                res = ctx.w.run({"k": "rc", "data": DOCS, "rules": text, "verbose": False})
                kind, st, _ = obs.rc_statuses(res)
                ctx.res.cases += 1
                if kind != "ok":
                    ctx.violation("named-not:error", "named-rule negation file failed: %s\n%s" % (res.get("err", "")[:200], text),
                                  {"rules": text, "data": DOCS, "law": "named"})
                    continue
                ctx.res.distinct.add(("named", want, spelling, st.get("n")))
                r = st.get("R")
                exp_u = "PASS" if r == "PASS" else "FAIL"
                exp_n = "FAIL" if r == "PASS" else "PASS"
                exp_w = lambda e: "PASS" if e == "PASS" else "SKIP"
                got = (r, st.get("u"), st.get("n"), st.get("wu"), st.get("wn"), st.get("bu"), st.get("bn"))
                exp = (want, exp_u, exp_n, exp_w(exp_u), exp_w(exp_n), exp_w(exp_u), exp_w(exp_n))
                if got != exp:
                    ctx.violation("named-not", "named-rule negation: got %s expected %s\n%s" % (got, exp, text),
                                  {"rules": text, "data": DOCS, "law": "named", "expected": list(exp)})

    # ---- the left-hand side is ONE value that is itself a list (possibly empty): `Ports in [80, 443]`, `Ports == [80]` and every negated spelling
    if ctx.mine(2):
        for lv in ([], [80], [80, 443], [8080], [8080, 9090], 80, 8080):      # (elements with uniform outcomes: mixed ones make both polarities FAIL)
            ldoc = json.dumps({"Ports": lv, "m": {"Ports": lv}})
            for q_ in ("Ports", "m.Ports", "m.*"):
                for op_, nop_, rhs_ in (("in", "not in", "[80, 443]"), ("in", "not in", "[80, 443, 1]"), ("IN", "NOT IN", "[443, 80]")):
                    text = ("rule b {\n    %s %s %s\n}\nrule n1 {\n    not %s %s %s\n}\nrule n2 {\n    %s %s %s\n}\nrule n3 {\n    !%s %s %s\n}\nrule d {\n    not %s %s %s\n}\n" % (
                        q_, op_, rhs_, q_, op_, rhs_, q_, nop_, rhs_, q_, op_, rhs_, q_, nop_, rhs_))
                    res = ctx.w.run({"k": "rc", "data": ldoc, "rules": text, "verbose": False})
                    kind, st, _ = obs.rc_statuses(res)
                    ctx.res.cases += 1
                    if kind != "ok":
                        ctx.inconclusive("crash" if core.crash_signature(res) else "list-valued-lhs-error")
                        continue
                    ctx.res.counts["list_valued_lhs_groups"] += 1
                    if st.get("b") not in ("PASS", "FAIL"):
                        continue
                    for nm, law in (("n1", "flip"), ("n2", "flip"), ("n3", "flip")):
                        if st.get(nm) != FLIP.get(st.get("b")):
                            ctx.violation("flip:list-valued-lhs:%s" % ("empty-list" if lv == [] else "list" if isinstance(lv, list) else "scalar"),
                                          "`%s %s %s` is %s on Ports=%s, its negation (%s) is %s" % (q_, op_, rhs_, st.get("b"), json.dumps(lv), nm, st.get(nm)),
                                          {"rules": text, "data": ldoc, "law": "flip", "a": nm, "b": "b"})
                            break
                    else:
                        if st.get("d") != st.get("b"):
                            ctx.violation("double-negation:list-valued-lhs", "`not %s %s %s` is %s, the plain clause %s (Ports=%s)" % (q_, nop_, rhs_, st.get("d"), st.get("b"), json.dumps(lv)),
                                          {"rules": text, "data": ldoc, "law": "double-negation", "a": "d", "b": "b"})
                        else:
                            ctx.res.distinct.add(("list-valued-lhs", op_, rhs_, st.get("b")))
    # ---- parameterised rule calls: `not P(args)` is PASS exactly when the call is not PASS (same inversion as for `not R`)
    if ctx.mine(1):
        gad = {"PASS": "%x == 5", "FAIL": "%x == 6", "SKIP": "lm[ x == 99 ].x == %x"}
        for want, body in gad.items():
            for spelling in ("not ", "!", "NOT "):
                for arg in ("i", "5", "l1[0]", "l1[*]"):
                    for msg in ("", " <<custom>>"):
                        text = ("rule P(x) {\n    %s\n}\nrule u {\n    P(%s)%s\n}\nrule n {\n    %sP(%s)%s\n}\n"
                                "rule wn when %sP(%s) {\n    i == 5\n}\n"
                                "rule bn {\n    when %sP(%s) {\n        i == 5\n    }\n}\n"
                                "rule dn {\n    i == 6 or %sP(%s)%s\n}\n"
                                % (body, arg, msg, spelling, arg, msg, spelling, arg, spelling, arg, spelling, arg, msg))
                        res = ctx.w.run({"k": "rc", "data": DOCS, "rules": text, "verbose": False})
                        kind, st, _ = obs.rc_statuses(res)
                        ctx.res.cases += 1
                        if kind != "ok":
                            ctx.violation("call-not:error", "negated-call file failed: %s\n%s" % (res.get("err", "")[:200], text),
                                          {"rules": text, "data": DOCS, "law": "call"})
                            continue
                        u = st.get("u")
                        ctx.res.distinct.add(("call", want, spelling, arg, bool(msg), u, st.get("n")))
                        exp_n = "FAIL" if u == "PASS" else "PASS"
                        exp_w = "PASS" if exp_n == "PASS" else "SKIP"
                        got = (u, st.get("n"), st.get("wn"), st.get("bn"), st.get("dn"))
                        exp = (want, exp_n, exp_w, exp_w, exp_n)
                        if got != exp:
                            ctx.violation("call-not", "negated parameterised call: (u, n, wn, bn, dn) = %s expected %s\n%s" % (got, exp, text),
                                          {"rules": text, "data": DOCS, "law": "call", "expected": list(exp)})

    # ---- random clauses on random documents (equivalence laws only; flip law when a plain key path hits a scalar)
    n = 300 if ctx.quick else 60000
    rng = ctx.rng("rand")
    o = gen.Opts(some=True, prefix_not=False, rhs_query=True)
    for t in range(n):
        doc = gen.gen_doc(rng)
        c = gen.gen_access_clause(rng, doc, o, 0)
        c["neg"] = False
        c["opneg"] = False
        op = c["op"]
        q = gen.pquery(c["q"])
        rhs = gen.prhs(c["rhs"]) if c["rhs"] is not None else None
        rules = build_group(q, c["some"], op, rhs)
        docs = json.dumps(doc)
        st, text = eval_rules(ctx, rules, docs, "")
        if st is None:
            ctx.inconclusive("crash")
            continue
        # single comparable? plain key path resolving to a scalar compared with a same-type scalar literal
        shape, val = "other", NOVAL
        if all(p[0] == "key" for p in c["q"]):
            v = doc
            okp = True
            for p in c["q"]:
                if isinstance(v, dict) and p[1] in v:
                    v = v[p[1]]
                else:
                    okp = False
                    break
            if okp and not isinstance(v, (list, dict)):
                shape, val = "single", v
        rtxt = rhs
        if shape == "single" and c["rhs"] is not None and c["rhs"][0] == "lit" and not isinstance(c["rhs"][1], (list, dict)):
            lv = c["rhs"][1]
            same = typ(lv) == typ(val)
            comp = same and (typ(val) in ("int", "float", "str") or op == "==")
            if not comp:
                shape = "other"
            else:
                # feed comparable_single through a synthetic model
                ok_flip = op in ("==", "<", "<=", ">", ">=")
                if ok_flip and not c["some"] and st.get("pos") in ("PASS", "FAIL"):
                    ctx.res.counts["flip_checked"] += 1
                    if st.get("pre") != FLIP[st["pos"]]:
                        ctx.res.cases += 1
                        ctx.violation("flip:binary", "random: flip broken %s\n%s\n%s" % (st, text, docs),
                                      {"rules": text, "data": docs, "law": "flip", "a": "pre", "b": "pos"})
                        continue
                shape = "other"
        judge(ctx, st, text, q, shape, val, c["some"], op, rtxt, docs)


def replay(case, w):
    res = w.run({"k": "rc", "data": case["data"], "rules": case["rules"], "verbose": False})
    kind, st, _ = obs.rc_statuses(res)
    if kind != "ok":
        return False, "evaluation failed: %s" % res.get("err", "")[:200]
    law = case.get("law")
    if law == "named":
        exp = case.get("expected")
        got = [st.get(k) for k in ("R", "u", "n", "wu", "wn", "bu", "bn")]
        return got == exp, "got %s expected %s" % (got, exp)
    if law == "call":
        exp = case.get("expected")
        got = [st.get(k) for k in ("u", "n", "wn", "bn", "dn")]
        return got == exp, "got %s expected %s" % (got, exp)
    a, b = case.get("a"), case.get("b")
    if law in ("spelling", "prefix-eq-opnot", "double-negation", "order-inverse"):
        return st.get(a) == st.get(b), "%s=%s %s=%s" % (a, st.get(a), b, st.get(b))
    if law in ("flip", "skip-stays-skip"):
        return st.get(a) == FLIP.get(st.get(b)), "%s=%s %s=%s" % (a, st.get(a), b, st.get(b))
    return False, "unknown law"


def main(tier, seed):
    t0 = time.time()
    core.build()
    res = core.run_shards(shard, seed, tier, "C03")
    seen = res.extra.get("op_form_seen", set())
    ops = list(RHS) + UNARY
    both = sum(1 for op in ops if ("%s:PASS" % op) in seen and ("%s:FAIL" % op) in seen)
    floor = {"operators_with_PASS_and_FAIL": (both, len(ops)), "flip_checked": (res.counts["flip_checked"], 200),
             "cases": (res.cases, 3000)}
    return core.finish("C03", tier, seed, res, t0,
                       rule="exhaustive LHS-shape x some/all x operator x RHS-class groups of 6-9 negation variants evaluated in one "
                            "file (+ random clauses on random documents); distinct = (operator, some, lhs shape, status(pos), status(not))",
                       floor=floor, exhaustive=True,
                       assumptions=["flip law only asserted where the generator proves from the model document that the query selects one comparable value"])
