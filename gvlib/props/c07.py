"""C07 - the verdict is independent of output format, verbosity and entry point.

For one (rules, data): the structured JSON report is the baseline; every other configuration's output
is parsed back by an independent parser (python json / PyYAML / xml.etree / regex for console text)
into (rule -> status, file status, exit class) and must agree. Well-formedness: JSON and YAML denote
the same data, SARIF has one result per reported failing check, JUnit is well-formed XML whose marks
agree with the verdict. Entry points: -r/-d files, stdin data, --payload, run_checks, FFI function.
"""
import json
import re
import time
import xml.etree.ElementTree as ET

import yaml

from .. import core, gen, obs

SUMMARY_LINE = re.compile(r"^(\S+/[^\s/:]+)\s+(PASS|FAIL|SKIP)\s*$")


def count_leaves(report):
    n = [0]

    def walk(e):
        (k, v), = e.items()
        if k in ("Rule", "Disjunctions"):
            for c in v.get("checks", []):
                walk(c)
        else:
            n[0] += 1
    for e in report.get("not_compliant", []):
        walk(e)
    return n[0]


def obs_from_report(rep):
    st = obs.report_statuses(rep)
    merged = {}
    for k, v in st.items():
        merged.setdefault(obs.strip_default(k), []).extend(v)      # default rules of several rules files all map to "default"
    return {"rules": {k: "+".join(sorted(v)) for k, v in merged.items()}, "file": rep.get("status")}


def parse_summary_table(out):
    """console summary table -> (file status, {rule: status})"""
    fs = None
    rules = {}
    for line in out.split("\n"):
        m = re.match(r"^.* Status = (PASS|FAIL|SKIP)\s*$", line)
        if m and fs is None:
            fs = m.group(1)
            continue
        if line.strip() == "---":
            break
        m = SUMMARY_LINE.match(line)
        if m:
            name = m.group(1).rsplit("/", 1)[-1]
            rules.setdefault(name, []).append(m.group(2))
    return fs, {k: "+".join(sorted(v)) for k, v in rules.items()}


def extract_json_doc(out):
    """first JSON object that starts at the beginning of a line (the document may be followed by other text)"""
    pos = 0 if out.startswith("{") else out.find("\n{")
    if pos < 0:
        return None
    if not out.startswith("{"):
        pos += 1
    try:
        d, _ = json.JSONDecoder().raw_decode(out, pos)
        return d
    except ValueError:
        return None


def extract_yaml_doc(out):
    lines = out.split("\n")
    for i, l in enumerate(lines):
        if l.startswith("name: "):
            try:
                return yaml.safe_load("\n".join(lines[i:]))
            except yaml.YAMLError:
                return None
    return None


def verbose_tree_statuses(out):
    """`-v` pretty tree: top-level `Rule(name, Status=X)` lines"""
    rules = {}
    fs = None
    for line in out.split("\n"):
        m = re.match(r"^`- File\(.*, Status=(PASS|FAIL|SKIP)\)", line)
        if m:
            fs = m.group(1)
        m = re.match(r"^   [|`]- Rule\(([^,]+), Status=(PASS|FAIL|SKIP)\)", line)
        if m:
            rules.setdefault(obs.strip_default(m.group(1)), []).append(m.group(2))
    return fs, {k: "+".join(sorted(v)) for k, v in rules.items()}


SHOW = {"all": {"PASS", "FAIL", "SKIP"}, "pass": {"PASS"}, "fail": {"FAIL"}, "skip": {"SKIP"}, "none": set(), "pass,fail": {"PASS", "FAIL"},
        "fail,skip": {"FAIL", "SKIP"}}


def check_unparsable_next_to_failing(ctx):
    """a rules file that does not parse next to one that FAILs: whatever the exit code is, it is the same in every rendering and order"""
    fl = {"broken.guard": "rule b { a == }\n", "failing.guard": "rule f {\n    x == 1\n}\n", "d.json": "{\"x\": 2}"}
    codes = {}
    for mname, tail in (("s-json", ["--structured", "-S", "none", "-o", "json"]), ("s-yaml", ["--structured", "-S", "none", "-o", "yaml"]), ("s-sarif", ["--structured", "-S", "none", "-o", "sarif"]),
                        ("s-junit", ["--structured", "-S", "none", "-o", "junit"]), ("plain", []), ("plain-json", ["-o", "json"])):
        for oname, R in (("broken-first", ["-r", "{S}/broken.guard", "-r", "{S}/failing.guard"]), ("failing-first", ["-r", "{S}/failing.guard", "-r", "{S}/broken.guard"])):
            r = ctx.w.run({"k": "cli", "argv": ["validate"] + R + ["-d", "{S}/d.json"] + tail, "files": fl})
            ctx.res.cases += 1
            if core.crash_signature(r) or r.get("code") is None:
                ctx.inconclusive("crash")
                return
            codes["%s/%s" % (mname, oname)] = r.get("code")
    ctx.res.counts["unparsable_next_to_failing_runs"] += len(codes)
    if any(c in (0,) for c in codes.values()):
        ctx.violation("exit:unparsable-rules-file-next-to-failing-one:success", "a run with an unparsable and a failing rules file exits 0: %s" % codes, {"kind": "mixed-exit"})
    elif len(set(codes.values())) > 1:
        ctx.violation("exit:unparsable-rules-file-next-to-failing-one:%s" % "-vs-".join(str(c) for c in sorted(set(codes.values()))),
                      "an unparsable rules file next to a failing one: the exit code depends on the rendering and on the order of the files: %s" % codes, {"kind": "mixed-exit"})
    else:
        ctx.res.distinct.add(("mixed-exit", tuple(sorted(set(codes.values())))))


def shard(ctx):
    rng = ctx.rng("c07")
    if ctx.mine(0):
        check_unparsable_next_to_failing(ctx)
    o = gen.Opts(types=True, calls=True, msgs=True, max_rules=4, max_lines=3, default=True)
    n = 22 if ctx.quick else 520
    for t in range(n):
        doc = gen.gen_doc(rng) if t % 6 != 5 else gen.gen_tf_doc(rng)     # every 6th: Terraform-plan-shaped (own console view)
        if isinstance(doc, dict) and t % 3 == 0:
            # characters that are markup in XML / need escaping in JSON and YAML: they travel into failure texts of every renderer
            doc = dict(doc)
            doc[rng.choice(["a", "b", "k"])] = rng.choice(["R&D <platform>", "a<b", "x]]>y", "q\"uo'te", "tab\there", "amp&amp;", "<!-- c -->", "back\\slash", "é<ü>", "ctl\u0001x\u001b[0m", "bell\u0007x"])     # no U+0000: the FFI entry point takes C strings
        docs = json.dumps(doc)
        f = gen.gen_file(rng, doc, o)
        if t % 3 == 0:
            for kind, cnf in gen.iter_cnfs(f):
                for line in cnf:
                    for alt in line:
                        if alt.get("msg") and rng.random() < 0.5:
                            alt["msg"] = rng.choice(["m<1&2> x", "use x < 5 && y > 3 !", "see <doc/> here", "50% & more", "it's \"quoted\""])     # none ends in `>` (would merge with the closing >>)
        if t % 7 == 3:
            # a large report (> 8 KiB) - the library entry point once truncated those
            f["rules"] = f["rules"] + [gen.rule("big%d" % i, [[gen.clause(gen.kq("nokey%d" % i, "x"), "==", ["lit", "v" * 40], msg="long message %d " % i + "m" * 60)]])
                                       for i in range(25)]
        text = gen.pfile(f)
        if t % 4 == 1:
            # one rule name with two definitions that both apply and come out differently (PASS and FAIL, either order): every view lists
            # the name under both outcomes
            dup = ["rule dupz {\n    this exists\n}\n", "rule dupz {\n    zz_nokey_dupz exists\n}\n"]
            if rng.random() < 0.5:
                dup.reverse()
            text = (text + "".join(dup)) if rng.random() < 0.5 else (dup[0] + text + dup[1])
            ctx.res.counts["programs_with_conflicting_definitions"] += 1
        check_pair(ctx, text, docs, rng)
        if t % 2 == 0:
            # several rules files x several data files: every format / entry point must give the same exit code and the same per-pair verdicts
            texts = [text] + [gen.pfile(gen.gen_file(rng, doc, o)) for _ in range(rng.randint(1, 2))]
            rng.shuffle(texts)
            dtexts = [docs] + [json.dumps(gen.gen_doc(rng)) for _ in range(rng.randint(0, 2))]
            rng.shuffle(dtexts)
            check_multi(ctx, texts, dtexts, zp=rng.choice([1, "x", True]) if rng.random() < 0.5 else None)


def check_multi(ctx, texts, dtexts, zp=None):
    case = {"kind": "multi", "rules": texts, "data": dtexts, "zp": zp}
    fl = {}
    R, D = [], []
    IT = []
    if zp is not None:
        # an --input-parameters document and one rule that only PASSes when the parameters reach the data file it is evaluated on
        fl["params/p.json"] = json.dumps({"zp": zp})
        IT = ["-i", "{S}/params/p.json"]
        texts = [texts[0] + "rule zp_rule {\n    zp == %s\n}\n" % gen.glit(zp)] + list(texts[1:])
        ctx.res.counts["multi_groups_with_input_parameters"] += 1
    # rules files either have distinct names or share one base name in different directories (still different files)
    same_base = len(json.dumps(texts)) % 2 == 0
    for i, tx in enumerate(texts):
        rel = ("rules%d/policy.guard" % i) if same_base else ("r%d.guard" % i)
        fl[rel] = tx
        R += ["-r", "{S}/" + rel]
    ctx.res.counts["multi_groups_same_base_name" if same_base else "multi_groups_distinct_names"] += 1
    if len(json.dumps(dtexts)) % 3 == 0:
        # a rules file without any rule (a placeholder: comments only / empty) among the rules files: it contributes nothing, in any rendering
        fl["placeholder/00_todo.guard"] = "# rules for this area are still to be written\n\n" if len(texts) % 2 else ""
        pos_ = 2 * (len(json.dumps(texts)) % (len(texts) + 1))
        R[pos_:pos_] = ["-r", "{S}/placeholder/00_todo.guard"]
        ctx.res.counts["multi_groups_with_placeholder_rules_file"] += 1
    for i, dx in enumerate(dtexts):
        fl["d%d.json" % i] = dx
        D += ["-d", "{S}/d%d.json" % i]
    payload = json.dumps({"rules": texts, "data": dtexts})

    def run(argv, stdin=""):
        return ctx.w.run({"k": "cli", "argv": argv, "files": fl, "stdin": stdin})
    base = run(["validate"] + R + D + IT + ["--structured", "-S", "none", "-o", "json"])
    if base.get("r") != "ok":
        ctx.inconclusive("crash" if core.crash_signature(base) else "baseline-error")
        return
    try:
        reps = json.loads(base["out"])
    except ValueError:
        ctx.violation("multi:structured-json:malformed", "structured JSON output does not parse", case)
        return
    statuses = [r.get("status") for r in reps]
    want = 19 if "FAIL" in statuses else 0
    ctx.res.cases += 1
    ctx.res.counts["multi_groups"] += 1
    if base["code"] != want:
        ctx.violation("multi:exit-vs-file-status:s-json", "file statuses %s but exit %s" % (statuses, base["code"]), case)
        return
    # the pairs that FAIL, by position: a FAIL that is not the last pair evaluated must still decide the exit code
    ctx.res.distinct.add(("multi", len(texts), len(dtexts), tuple(statuses)))
    configs = {
        "multi:s-yaml": (["validate"] + R + D + IT + ["--structured", "-S", "none", "-o", "yaml"], ""),
        "multi:s-junit": (["validate"] + R + D + IT + ["--structured", "-S", "none", "-o", "junit"], ""),
        "multi:s-sarif": (["validate"] + R + D + IT + ["--structured", "-S", "none", "-o", "sarif"], ""),
        "multi:plain": (["validate"] + R + D + IT + ["-S", "all"], ""),
        "multi:plain-none": (["validate"] + R + D + IT + ["-S", "none"], ""),
        "multi:plain-json": (["validate"] + R + D + IT + ["-S", "fail", "-o", "json"], ""),
        "multi:plain-yaml-verbose": (["validate"] + R + D + IT + ["-o", "yaml", "-v"], ""),
        "multi:plain-print-json": (["validate"] + R + D + IT + ["-S", "none", "-p"], ""),
        "multi:payload-plain": (["validate", "--payload"] + IT + ["-S", "all"], payload),
        "multi:payload-plain-none": (["validate", "--payload"] + IT + ["-S", "none"], payload),
        "multi:payload-plain-json": (["validate", "--payload"] + IT + ["-o", "json"], payload),
        "multi:payload-structured": (["validate", "--payload"] + IT + ["--structured", "-S", "none", "-o", "json"], payload),
        "multi:payload-structured-junit": (["validate", "--payload"] + IT + ["--structured", "-S", "none", "-o", "junit"], payload),
    }
    for cfg, (argv, stdin) in configs.items():
        r = run(argv, stdin)
        ctx.res.cases += 1
        if r.get("r") != "ok":
            if core.crash_signature(r):
                ctx.inconclusive("crash")
            else:
                ctx.violation("%s:error" % cfg, "run failed where the structured run succeeded: %s" % r.get("emsg", "")[:200], dict(case, cfg=cfg))
            continue
        ctx.res.distinct.add((cfg, r["code"]))
        if r["code"] != base["code"]:
            ctx.violation("%s:exit" % cfg, "exit %s vs structured-JSON baseline %s (file statuses %s)" % (r["code"], base["code"], statuses), dict(case, cfg=cfg))
            continue
        if cfg.endswith("junit"):
            # one <testsuite> per data file: its failures=/errors= attributes count ITS OWN cases, and it has a failing case iff
            # the structured report of that data file is FAIL
            try:
                root = ET.fromstring(r["out"])
            except ET.ParseError as e:
                ctx.violation("%s:malformed" % cfg, "JUnit output is not well-formed XML: %s" % str(e)[:100], dict(case, cfg=cfg))
                continue
            suites = root.findall("./testsuite")
            if len(suites) != len(reps):
                ctx.violation("%s:suite-count" % cfg, "%d testsuite elements for %d data files" % (len(suites), len(reps)), dict(case, cfg=cfg))
                continue
            bad = None
            for su, rep in zip(suites, reps):
                nf = sum(1 for tc in su.findall("./testcase") if tc.find("failure") is not None)
                ne = sum(1 for tc in su.findall("./testcase") if tc.find("error") is not None)
                ctx.res.counts["junit_suites_checked"] += 1
                if str(nf) != su.get("failures") or str(ne) != su.get("errors"):
                    bad = ("suite-counters", "testsuite %s says failures=%s errors=%s but holds %d failing and %d erroring cases" % (
                        str(su.get("name")).rsplit("/", 1)[-1], su.get("failures"), su.get("errors"), nf, ne))
                elif (nf > 0) != (rep.get("status") == "FAIL"):
                    bad = ("suite-vs-file-status", "testsuite %s has %d failing cases but the structured report of that data file is %s" % (
                        str(su.get("name")).rsplit("/", 1)[-1], nf, rep.get("status")))
                if bad:
                    break
            tot_f = sum(1 for tc in root.findall("./testsuite/testcase") if tc.find("failure") is not None)
            if not bad and (root.get("failures") != str(tot_f) or root.get("tests") != str(len(root.findall("./testsuite/testcase")))):
                bad = ("total-counters", "testsuites says tests=%s failures=%s but holds %d cases, %d failing" % (root.get("tests"), root.get("failures"), len(root.findall("./testsuite/testcase")), tot_f))
            if bad:
                ctx.violation("%s:%s" % (cfg, bad[0]), bad[1], dict(case, cfg=cfg))
                continue
        if cfg in ("multi:payload-structured",):
            try:
                preps = json.loads(r["out"])
            except ValueError:
                ctx.violation("%s:malformed" % cfg, "payload structured output malformed", dict(case, cfg=cfg))
                continue
            def as_sets(x):
                # rules files of one base name share the name of their default rule (and compliant / not_applicable are name sets by design),
                # payload entries are named RULES_STDIN[n]: compare per rule name the set of statuses
                o_ = obs_from_report(x)
                return json.dumps({"file": o_["file"], "rules": {k: sorted(set(v.split("+"))) for k, v in o_["rules"].items()}}, sort_keys=True)
            a = sorted(as_sets(x) for x in reps)
            b = sorted(as_sets(x) for x in preps)
            if a != b:
                ctx.violation("%s:reports" % cfg, "per-data-file verdicts differ between files and payload entry points", dict(case, cfg=cfg))
        if zp is not None and cfg in ("multi:plain", "multi:payload-plain"):
            # the parameter-reading rule, per data file: console view vs structured baseline
            cur, seen = None, {}
            for line in r["out"].split("\n"):
                m = re.match(r"^(.*) Status = (PASS|FAIL|SKIP)\s*$", line)
                if m:
                    cur = m.group(1).strip()
                    continue
                m = SUMMARY_LINE.match(line)
                if m and m.group(1).endswith("/zp_rule") and cur is not None:
                    seen.setdefault(cur.rsplit("/", 1)[-1], m.group(2))
            want = {}
            for rep in reps:
                stz = obs.report_statuses(rep).get("zp_rule")
                if stz:
                    want[str(rep.get("name", "")).rsplit("/", 1)[-1]] = stz[0]
            common = set(seen) & set(want)
            ctx.res.counts["parameter_rule_pairs_compared"] += len(common)
            bad = sorted(k for k in common if seen[k] != want[k])
            if bad:
                ctx.violation("%s:parameter-rule" % cfg, "rule reading the --input-parameters key is %s on the console but %s in the structured report for %s" % (seen[bad[0]], want[bad[0]], bad[0]), dict(case, cfg=cfg))
                continue
        if cfg in ("multi:plain", "multi:payload-plain"):
            # one summary block per (data file, rules file): the multiset of block statuses is implied by the per-rule statuses of the baseline
            blocks = re.findall(r"^.* Status = (PASS|FAIL|SKIP)\s*$", r["out"], re.M)
            if ("FAIL" in blocks) != ("FAIL" in statuses):
                ctx.violation("%s:file-status" % cfg, "summary blocks %s vs structured file statuses %s" % (blocks, statuses), dict(case, cfg=cfg))


def check_pair(ctx, text, docs, rng):
    seen = ctx.res.extra.setdefault("format_status_seen", set())
    if True:
        fl = {"r.guard": text, "d.json": docs}
        base = ctx.w.run({"k": "cli", "argv": ["validate", "-r", "{S}/r.guard", "-d", "{S}/d.json", "--structured", "-S", "none", "-o", "json"], "files": fl})
        if base.get("r") != "ok":
            if core.crash_signature(base) or base.get("code") is None:
                ctx.inconclusive("crash")
                return
            # the evaluation ends in an error: every rendering and entry point must end the same way (no verdict, the same exit code)
            ctx.res.counts["error_runs_compared"] += 1
            for cfg, argv, stdin in (("s-yaml", ["validate", "-r", "{S}/r.guard", "-d", "{S}/d.json", "--structured", "-S", "none", "-o", "yaml"], ""),
                                     ("s-junit", ["validate", "-r", "{S}/r.guard", "-d", "{S}/d.json", "--structured", "-S", "none", "-o", "junit"], ""),
                                     ("s-sarif", ["validate", "-r", "{S}/r.guard", "-d", "{S}/d.json", "--structured", "-S", "none", "-o", "sarif"], ""),
                                     ("plain", ["validate", "-r", "{S}/r.guard", "-d", "{S}/d.json"], ""),
                                     ("plain-json-verbose", ["validate", "-r", "{S}/r.guard", "-d", "{S}/d.json", "-o", "json", "-v"], ""),
                                     ("print-json", ["validate", "-r", "{S}/r.guard", "-d", "{S}/d.json", "-p", "-S", "none"], ""),
                                     ("payload-structured-junit", ["validate", "--payload", "--structured", "-S", "none", "-o", "junit"], json.dumps({"rules": [text], "data": [docs]}))):
                r = ctx.w.run({"k": "cli", "argv": argv, "files": fl, "stdin": stdin})
                ctx.res.cases += 1
                if core.crash_signature(r):
                    ctx.inconclusive("crash")
                    continue
                ctx.res.distinct.add(("error-run", cfg, r.get("code")))
                if r.get("code") != base.get("code"):
                    ctx.violation("%s:exit-on-evaluation-error" % cfg, "the evaluation ends in an error: structured JSON exits %s, %s exits %s" % (base.get("code"), cfg, r.get("code")),
                                  {"rules": text, "data": docs, "cfg": cfg})
            return
        try:
            brep = json.loads(base["out"])[0]
        except (ValueError, IndexError):
            ctx.violation("structured-json:malformed", "structured JSON output does not parse", {"rules": text, "data": docs, "cfg": "s-json"})
            return
        B = obs_from_report(brep)
        bexit = base["code"]
        if bexit == 5:
            ctx.inconclusive("rules-file-does-not-parse")      # generator slip, not a statement about the tool (C06/C08 own parse errors)
            return
        want_exit = 19 if B["file"] == "FAIL" else 0
        ctx.res.cases += 1
        case0 = {"rules": text, "data": docs}
        if bexit != want_exit:
            ctx.violation("exit-vs-file-status:s-json", "file status %s but exit %s" % (B["file"], bexit), dict(case0, cfg="s-json"))
        for s in set(B["rules"].values()):
            seen.add("s-json:" + s)
        nleaves = count_leaves(brep)

        def compare(cfg, got, exitc, partial=None):
            """got: {'rules':..., 'file':...}; partial: set of statuses the configuration is allowed to show"""
            ctx.res.cases += 1
            ctx.res.distinct.add((cfg, got.get("file"), exitc))
            case = dict(case0, cfg=cfg)
            if exitc is not None and exitc != bexit:
                ctx.violation("%s:exit" % cfg, "exit %s vs baseline %s" % (exitc, bexit), case)
                return
            if got.get("file") is not None and got["file"] != B["file"]:
                ctx.violation("%s:file-status" % cfg, "file status %s vs baseline %s" % (got["file"], B["file"]), case)
                return
            if got.get("rules") is not None:
                exp = B["rules"]
                if partial is not None:
                    exp = {k: v for k, v in exp.items() if set(v.split("+")) & partial}
                    g = {k: "+".join(sorted(set(v.split("+")) & partial)) for k, v in got["rules"].items()}
                    e2 = {k: "+".join(sorted(set(v.split("+")) & partial)) for k, v in exp.items()}
                    if g != e2:
                        ctx.violation("%s:rule-statuses" % cfg, "shown rules %s vs baseline (restricted to %s) %s" % (g, sorted(partial), e2), case)
                        return
                elif got["rules"] != exp:
                    diff = {k: (exp.get(k), got["rules"].get(k)) for k in set(exp) | set(got["rules"]) if exp.get(k) != got["rules"].get(k)}
                    ctx.violation("%s:rule-statuses" % cfg, "rule statuses differ (baseline, this): %s" % diff, case)
                    return
                for s in set(got["rules"].values()):
                    seen.add("%s:%s" % (cfg.split("[")[0], s))

        def run(argv, stdin="", files=fl):
            return ctx.w.run({"k": "cli", "argv": argv, "files": files, "stdin": stdin})

        RD = ["validate", "-r", "{S}/r.guard", "-d", "{S}/d.json"]
        # ---- structured yaml == json as data
        r = run(RD + ["--structured", "-S", "none", "-o", "yaml"])
        if r.get("r") == "ok":
            try:
                y = yaml.safe_load(r["out"])
                if json.loads(json.dumps(y)) != json.loads(base["out"]):
                    ctx.violation("s-yaml:not-same-data", "structured YAML and JSON denote different data", dict(case0, cfg="s-yaml"))
                else:
                    compare("s-yaml", obs_from_report(y[0]), r["code"])
            except yaml.YAMLError as e:
                ctx.violation("s-yaml:malformed", "structured YAML does not parse: %s" % str(e)[:200], dict(case0, cfg="s-yaml"))
        elif core.crash_signature(r):
            ctx.inconclusive("crash")
        else:
            ctx.violation("s-yaml:error", "structured yaml run failed: %s" % r.get("emsg", "")[:200], dict(case0, cfg="s-yaml"))
        # ---- sarif
        r = run(RD + ["--structured", "-S", "none", "-o", "sarif"])
        if r.get("r") == "ok":
            try:
                sj = json.loads(r["out"])
                results = sj["runs"][0]["results"]
                ctx.res.cases += 1
                if r["code"] != bexit:
                    ctx.violation("s-sarif:exit", "exit %s vs %s" % (r["code"], bexit), dict(case0, cfg="s-sarif"))
                elif len(results) != nleaves:
                    ctx.violation("s-sarif:result-count", "SARIF has %d results, the JSON report has %d failing checks" % (len(results), nleaves), dict(case0, cfg="s-sarif"))
                else:
                    ctx.res.distinct.add(("s-sarif", len(results) > 0))
                    seen.add("s-sarif:FAIL" if results else "s-sarif:noresults")
            except (ValueError, KeyError, IndexError) as e:
                ctx.violation("s-sarif:malformed", "SARIF output malformed: %s" % str(e)[:100], dict(case0, cfg="s-sarif"))
        elif core.crash_signature(r):
            ctx.inconclusive("crash")
        # ---- junit
        r = run(RD + ["--structured", "-S", "none", "-o", "junit"])
        if r.get("r") == "ok":
            try:
                root = ET.fromstring(r["out"])
                cases = root.findall("./testsuite/testcase")
                nf = len(root.findall("./testsuite/testcase/failure"))
                ne = len(root.findall("./testsuite/testcase/error"))
                # cfn-guard marks non-failing cases with a status="pass|skip|error" attribute on <testcase>
                attr = [c.get("status") for c in cases]
                nsk = len(root.findall("./testsuite/testcase/skipped")) + attr.count("skip")
                ne += attr.count("error") if not ne else 0
                mark = "FAIL" if nf else ("ERROR" if ne else ("SKIP" if nsk else "PASS"))
                ctx.res.cases += 1
                attrs_ok = (int(root.get("failures", -1)) == nf and int(root.get("errors", -1)) == ne and int(root.get("tests", -1)) == len(cases))
                if not attrs_ok:
                    ctx.violation("s-junit:counts", "testsuites attributes tests/failures/errors = %s/%s/%s but elements %d/%d/%d" % (
                        root.get("tests"), root.get("failures"), root.get("errors"), len(cases), nf, ne), dict(case0, cfg="s-junit"))
                elif len(cases) != 1 or mark != B["file"]:
                    ctx.violation("s-junit:mark", "junit mark %s (%d cases) vs file status %s" % (mark, len(cases), B["file"]), dict(case0, cfg="s-junit"))
                elif r["code"] != bexit:
                    ctx.violation("s-junit:exit", "exit %s vs %s" % (r["code"], bexit), dict(case0, cfg="s-junit"))
                seen.add("s-junit:" + mark)
            except ET.ParseError as e:
                ctx.violation("s-junit:malformed", "JUnit output is not well-formed XML: %s" % str(e)[:100], dict(case0, cfg="s-junit"))
        elif core.crash_signature(r):
            ctx.inconclusive("crash")
        # ---- plain modes x show-summary x verbosity
        shows = list(SHOW) if not ctx.quick else rng.sample(list(SHOW), 3) + ["all"]
        for show in shows:
            for fmt in ("single-line-summary", "json", "yaml"):
                for extra in ([], ["-v"], ["-p"]):
                    if ctx.quick and rng.random() < 0.5:
                        continue
                    argv = RD + ["-S", show] + (["-o", fmt] if fmt != "single-line-summary" else []) + extra
                    r = run(argv)
                    cfg = "plain-%s[-S %s%s]" % (fmt, show, " " + extra[0] if extra else "")
                    if r.get("r") != "ok":
                        if core.crash_signature(r):
                            ctx.inconclusive("crash")
                        else:
                            ctx.violation("%s:error" % cfg.split("[")[0], "run failed: %s" % r.get("emsg", "")[:200], dict(case0, cfg=cfg))
                        continue
                    out = r["out"]
                    if show != "none":
                        fs, rules = parse_summary_table(out)
                        compare("summary-table[-S %s]" % show, {"rules": rules, "file": fs}, r["code"], partial=SHOW[show])
                    else:
                        compare("plain[-S none]", {}, r["code"])
                    if extra == ["-p"]:
                        tree = extract_json_doc(out if fmt != "json" else out[out.rfind("\n{\n  \"context\""):] if "\n{\n  \"context\"" in out else out)
                        if tree is None or "container" not in (tree or {}):
                            # with -o json two JSON documents are printed; take the last one
                            idx = out.rfind('{\n  "context"')
                            try:
                                tree = json.loads(out[idx:]) if idx >= 0 else None
                            except ValueError:
                                tree = None
                        if tree is None:
                            ctx.violation("print-json:malformed", "no parsable record tree in -p output", dict(case0, cfg=cfg))
                        else:
                            tl = {}
                            for nme, s in obs.tree_rule_statuses(tree):
                                tl.setdefault(obs.strip_default(nme), []).append(s)
                            compare("print-json", {"rules": {k: "+".join(sorted(v)) for k, v in tl.items()}, "file": obs.node_status(tree)}, r["code"])
                    elif extra == ["-v"]:
                        fs, rules = verbose_tree_statuses(out)
                        compare("verbose-tree", {"rules": rules, "file": fs}, r["code"])
                    if fmt == "json" and extra != ["-p"]:
                        d = extract_json_doc(out)
                        if d is None:
                            ctx.violation("plain-json:malformed", "no parsable JSON document in -o json output", dict(case0, cfg=cfg))
                        else:
                            compare("plain-json", obs_from_report(d), r["code"])
                    if fmt == "yaml" and extra == []:
                        d = extract_yaml_doc(out)
                        if d is None:
                            ctx.violation("plain-yaml:malformed", "no parsable YAML document in -o yaml output", dict(case0, cfg=cfg))
                        else:
                            compare("plain-yaml", obs_from_report(d), r["code"])
        # ---- entry points
        r = ctx.w.run({"k": "cli", "argv": ["validate", "-r", "{S}/r.guard", "--structured", "-S", "none", "-o", "json"], "files": {"r.guard": text}, "stdin": docs})
        if r.get("r") == "ok":
            try:
                compare("entry-stdin", obs_from_report(json.loads(r["out"])[0]), r["code"])
            except (ValueError, IndexError):
                ctx.violation("entry-stdin:malformed", "stdin-data structured output malformed", dict(case0, cfg="entry-stdin"))
        elif core.crash_signature(r):
            ctx.inconclusive("crash")
        payload = json.dumps({"rules": [text], "data": [docs]})
        r = ctx.w.run({"k": "cli", "argv": ["validate", "--payload", "--structured", "-S", "none", "-o", "json"], "stdin": payload})
        if r.get("r") == "ok":
            try:
                compare("entry-payload-structured", obs_from_report(json.loads(r["out"])[0]), r["code"])
            except (ValueError, IndexError):
                ctx.violation("entry-payload:malformed", "payload structured output malformed", dict(case0, cfg="entry-payload-structured"))
        elif core.crash_signature(r):
            ctx.inconclusive("crash")
        r = ctx.w.run({"k": "cli", "argv": ["validate", "--payload", "-S", "all"], "stdin": payload})
        if r.get("r") == "ok":
            fs, rules = parse_summary_table(r["out"])
            compare("entry-payload-plain", {"rules": rules, "file": fs}, r["code"])
        elif core.crash_signature(r):
            ctx.inconclusive("crash")
        for kind in ("rc", "ffi"):
            for verbose in (False, True):
                r = ctx.w.run({"k": kind, "data": docs, "rules": text, "verbose": verbose, "data_name": "lambda-payload", "rules_name": "lambda-rule"})
                cfg = "entry-%s-%s" % ("run_checks" if kind == "rc" else "ffi", "verbose" if verbose else "report")
                if r.get("r") != "ok":
                    if core.crash_signature(r):
                        ctx.inconclusive("crash")
                    else:
                        ctx.violation("%s:error" % cfg, "library entry failed where the CLI succeeded: %s" % r.get("err", "")[:200], dict(case0, cfg=cfg))
                    continue
                try:
                    d = json.loads(r["out"])      # what the Lambda handler does with every result
                except ValueError as e:
                    ctx.violation("%s:malformed" % cfg, "library output is not well-formed JSON (%d bytes): %s" % (len(r["out"]), str(e)[:80]), dict(case0, cfg=cfg))
                    continue
                if verbose:
                    tl = {}
                    for nme, s in obs.tree_rule_statuses(d):
                        tl.setdefault(obs.strip_default(nme), []).append(s)
                    compare(cfg, {"rules": {k: "+".join(sorted(v)) for k, v in tl.items()}, "file": obs.node_status(d)}, None)
                else:
                    compare(cfg, obs_from_report(d), None)
                    if len(r["out"]) > 8192:
                        ctx.res.counts["library_reports_over_8KiB"] += 1
        if len(ctx.res.samples) < 2:
            ctx.sample({"rules": text[:400], "baseline": B, "exit": bexit, "failing_checks": nleaves})


def replay(case, w):
    import random
    res = core.ShardResult()
    found = []

    class Ctx(core.Ctx):
        def violation(self, sig, what, rp):
            found.append(sig)
    c = Ctx(w, 0, 1, 1, "thorough", res, {"prop": "C07"})
    if case.get("kind") == "mixed-exit":
        check_unparsable_next_to_failing(c)
        return not found, "violations: %s" % sorted(set(found))
    if case.get("kind") == "multi":
        check_multi(c, case["rules"], case["data"], zp=case.get("zp"))
        return not found, "violations: %s" % sorted(set(found))
    check_pair(c, case["rules"], case["data"], random.Random(1))
    return not found, "violations: %s" % sorted(set(found))


def main(tier, seed):
    t0 = time.time()
    core.build()
    res = core.run_shards(shard, seed, tier, "C07")
    seen = res.extra.get("format_status_seen", set())
    fmts = ["s-json", "s-yaml", "summary-table", "plain-json", "print-json", "verbose-tree", "entry-run_checks-report", "entry-ffi-report", "entry-payload-structured", "entry-stdin"]
    full = sum(1 for f in fmts if all(any(x.startswith(f) and x.endswith(":" + s) for x in seen) for s in ("PASS", "FAIL", "SKIP")))
    floor = {"cases": (res.cases, 3000), "formats_with_PASS_FAIL_SKIP": (full, len(fmts)),
             "junit_marks": (len([x for x in seen if x.startswith("s-junit:")]), 2), "library_reports_over_8KiB": (res.counts["library_reports_over_8KiB"], 5),
             "multi_file_groups": (res.counts["multi_groups"], 60)}
    return core.finish("C07", tier, seed, res, t0,
                       rule="random programs x documents (JSON-compatible scalars) x ~70 configurations: structured json/yaml/sarif/junit; plain single-line/json/yaml "
                            "x -S {all,pass,fail,skip,none,pass+fail,fail+skip} x {-, -v, -p}; entry points files / stdin / --payload (plain+structured) / run_checks / FFI "
                            "(verbose and report); every output parsed back independently and compared with the structured-JSON baseline; plus groups of 2-3 rules files x 1-3 data files through 13 configurations (exit code, per-pair verdicts); distinct = (configuration, file status, exit)",
                       floor=floor,
                       assumptions=["console reporters legitimately show only what -S selects: containment there, equality for -S all",
                                    "the Lambda handler is covered through run_checks with its exact argument pattern (it cannot be linked)"])
