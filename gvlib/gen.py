"""Shared generators: documents, Guard literals, rule ASTs and their printer.

AST (plain dicts / tuples, JSON-serialisable so that replay files are
self-contained):

  query   = [part, ...]  part = ["key",k] | ["all"] | ["allidx"] | ["idx",n] | ["dotidx",n]
                                | ["filter", cnf] | ["var",name] | ["this"] | ["keyidx",k]
  rhs     = ["lit", value] | ["var", name] | ["query", query] | ["fn", name, [rhs..]]
  value   = python json value | {"$re": str} | {"$range": [lo, hi, "[", ")"]}
  clause  = {"t":"clause","neg":bool,"some":bool,"q":query,"op":op,"opneg":bool,"rhs":rhs|None,"msg":str|None}
  ref     = {"t":"ref","neg":bool,"name":str,"msg":None}
  block   = {"t":"block","some":bool,"q":query,"lets":[let..],"body":cnf,"not_empty":bool}
  when    = {"t":"when","cond":cnf,"lets":[..],"body":cnf}
  typeb   = {"t":"type","type":str,"cond":cnf|None,"lets":[..],"body":cnf}
  call    = {"t":"call","neg":bool,"name":str,"args":[rhs..]}
  cnf     = [[alt, ...], ...]          (lines of or-joined alternatives)
  let     = [name, rhs]
  rule    = {"name":str,"params":None|[names],"when":cnf|None,"lets":[..],"body":cnf}
  file    = {"lets":[..],"rules":[rule..],"default":cnf}
"""
import json
import math
import re

UNARY = ["exists", "empty", "is_string", "is_list", "is_struct", "is_bool", "is_int", "is_float", "is_null"]
BINARY = ["==", "<", "<=", ">", ">=", "in"]

VARNAME = re.compile(r"^[A-Za-z][A-Za-z0-9_]*$")
KEYWORDS = {"when", "WHEN", "rule", "let", "some", "SOME", "not", "NOT", "this", "THIS", "keys", "KEYS",
            "or", "OR", "in", "IN", "exists", "EXISTS", "empty", "EMPTY", "true", "false", "True", "False",
            "null", "NULL"}

# ------------------------------------------------------------------ documents

KEYS = ["a", "b", "c", "k", "n", "Type", "Properties", "Resources", "Tags", "Key", "Value"]
SCALARS = [0, 1, 2, 5, 10, -1, 1.5, 2.0, "", "a", "b", "ab", "x/y", "1", "true",
           "AWS::S3::Bucket", "AWS::EC2::Volume", True, False, None]
TYPES = ["AWS::S3::Bucket", "AWS::EC2::Volume", "AWS::IAM::Role"]


def gen_value(rng, depth, scalars=SCALARS, keys=KEYS, maxlen=3):
    r = rng.random()
    if depth <= 0 or r < 0.45:
        return rng.choice(scalars)
    if r < 0.72:
        return [gen_value(rng, depth - 1, scalars, keys, maxlen) for _ in range(rng.randint(0, maxlen))]
    n = rng.randint(0, maxlen)
    ks = rng.sample(keys, min(n, len(keys)))
    return {k: gen_value(rng, depth - 1, scalars, keys, maxlen) for k in ks}


def gen_generic_doc(rng, depth=4, scalars=SCALARS, keys=KEYS):
    n = rng.randint(1, 4)
    ks = rng.sample(keys, n)
    return {k: gen_value(rng, depth - 1, scalars, keys) for k in ks}


def gen_cfn_doc(rng, scalars=SCALARS, keys=KEYS, nres=None):
    nres = rng.randint(0, 4) if nres is None else nres
    res = {}
    for i in range(nres):
        r = {}
        if rng.random() < 0.95:
            r["Type"] = rng.choice(TYPES)
        if rng.random() < 0.85:
            r["Properties"] = {k: gen_value(rng, 2, scalars, keys) for k in rng.sample(keys[:6], rng.randint(0, 3))}
        res["r%d" % i] = r
    doc = {"Resources": res}
    if rng.random() < 0.3:
        doc["a"] = gen_value(rng, 2, scalars, keys)
    if rng.random() < 0.15:
        del doc["Resources"]
    return doc


def gen_doc(rng, **kw):
    if rng.random() < 0.5:
        return gen_generic_doc(rng, **kw)
    return gen_cfn_doc(rng, **{k: v for k, v in kw.items() if k in ("scalars", "keys")})


def walk(v, path=()):
    """yield (path tuple, value) for every node"""
    yield path, v
    if isinstance(v, dict):
        for k, x in v.items():
            yield from walk(x, path + (k,))
    elif isinstance(v, list):
        for i, x in enumerate(v):
            yield from walk(x, path + (i,))


def jdump(v):
    return json.dumps(v, ensure_ascii=False)


# ------------------------------------------------------------------ Guard literals

def gstr(s, style=None):
    q = '"'
    if style is not None:
        q = style.quote(s)
    if q == '"' and '"' in s and "'" not in s:
        q = "'"
    elif q == "'" and "'" in s and '"' not in s:
        q = '"'
    return q + s.replace(q, "\\" + q) + q


def gfloat(f):
    r = repr(float(f))
    if "e" in r:
        m, e = r.split("e")
        if e[0] not in "+-":
            e = "+" + e
        r = m + "e" + e
    return r


def glit(v, style=None):
    if isinstance(v, dict):
        if "$re" in v and len(v) == 1:
            return "/" + v["$re"].replace("/", "\\/") + "/"
        if "$range" in v and len(v) == 1:
            lo, hi, o, c = v["$range"]
            return "r%s%s,%s%s" % (o, glit(lo), glit(hi), c)
        if not v:
            return "{}"
        sep = style.listsep() if style else ", "
        return "{ " + sep.join("%s: %s" % (gstr(k, style), glit(x, style)) for k, x in v.items()) + " }"
    if isinstance(v, list):
        sep = style.listsep() if style else ", "
        return "[" + sep.join(glit(x, style) for x in v) + "]"
    if v is None:
        return style.kw("null") if style else "null"
    if v is True:
        return "true"
    if v is False:
        return "false"
    if isinstance(v, int):
        return str(v)
    if isinstance(v, float):
        return gfloat(v)
    if isinstance(v, str):
        return gstr(v, style)
    raise TypeError(v)


def lit_spellable(v):
    """can the DSL spell this value as a literal?"""
    if isinstance(v, dict):
        if "$re" in v or "$range" in v:
            return True
        return all(lit_spellable(x) for x in v.values()) and all("\\" not in k for k in v)
    if isinstance(v, list):
        return all(lit_spellable(x) for x in v)
    if isinstance(v, bool) or v is None:
        return True
    if isinstance(v, int):
        return -(2 ** 63) < v < 2 ** 63
    if isinstance(v, float):
        return math.isfinite(v) and (v > 0 or (v == 0 and math.copysign(1, v) > 0))
    if isinstance(v, str):
        return "\\" not in v and not (('"' in v) and ("'" in v))
    return False


# ------------------------------------------------------------------ printer

class Style:
    """Canonical spelling. C14 subclasses this to vary one token class at a time."""

    def kw(self, word):      # keywords with documented case variants
        return word

    def neg(self):           # prefix / operator negation spelling
        return "not "

    def opneg(self, op):
        if op == "==":
            return "!="
        return "!" + op if op != "in" else "not in"

    def orj(self):
        return " or "

    def assign(self):
        return "="

    def quote(self, s):
        return '"'

    def idx(self, n, first=False):
        return "[%d]" % n

    def listsep(self):
        return ", "

    def indent(self, depth):
        return "    " * depth

    def eol(self):
        return "\n"

    def this_prefix(self):
        return False


CANON = Style()


def gkey(k, style=CANON):
    if VARNAME.match(k) and k not in KEYWORDS:
        return k
    return gstr(k, style)


def pquery(q, style=CANON, depth=0):
    out = []
    for i, p in enumerate(q):
        t = p[0]
        if t == "key":
            s = gkey(p[1], style)
            out.append(s if i == 0 else "." + s)
        elif t == "keyidx":
            out.append("[%s]" % gstr(p[1], style))
        elif t == "var":
            out.append("%" + p[1])
        elif t == "this":
            out.append(style.kw("this"))
        elif t == "all":
            out.append(".*")
        elif t == "allidx":
            out.append("[*]")
        elif t == "idx":
            out.append(style.idx(p[1]))
        elif t == "dotidx":
            out.append(".%d" % p[1])
        elif t == "filter":
            out.append("[ " + pcnf_inline(p[1], style, depth) + " ]")
        elif t == "keysfilter":
            out.append("[ keys %s %s ]" % (p[1], prhs(p[2], style, depth)))
        elif t == "raw":
            out.append(p[1])
        else:
            raise ValueError(p)
    return "".join(out)


def prhs(r, style=CANON, depth=0):
    t = r[0]
    if t == "lit":
        return glit(r[1], style)
    if t == "var":
        return "%" + r[1]
    if t == "query":
        return pquery(r[1], style, depth)
    if t == "fn":
        return "%s(%s)" % (r[1], ", ".join(prhs(a, style, depth) for a in r[2]))
    if t == "raw":
        return r[1]
    raise ValueError(r)


def pop(op, opneg, style):
    base = op
    if op in ("in", "exists", "empty") or op.startswith("is_"):
        base = style.kw(op)
    if not opneg:
        return base
    if op == "==":
        return "!="
    if op in ("<", "<=", ">", ">="):
        raise ValueError("no operator-level negation for " + op)
    n = style.neg()
    return n + base if n.endswith(" ") else n + base


def pclause(c, style=CANON, depth=0):
    t = c["t"]
    if t == "clause":
        s = ""
        if c.get("neg"):
            s += style.neg()
        if c.get("some"):
            s += style.kw("some") + " "
        s += pquery(c["q"], style, depth)
        s += " " + pop(c["op"], c.get("opneg", False), style)
        if c.get("rhs") is not None:
            s += " " + prhs(c["rhs"], style, depth)
        if c.get("msg"):
            s += " <<" + c["msg"] + ">>"
        return s
    if t == "ref":
        s = (style.neg() if c.get("neg") else "") + c["name"]
        if c.get("msg"):
            s += " <<" + c["msg"] + ">>"
        return s
    if t == "call":
        s = (style.neg() if c.get("neg") else "") + "%s(%s)" % (c["name"], ", ".join(prhs(a, style, depth) for a in c["args"]))
        if c.get("msg"):
            s += " <<" + c["msg"] + ">>"
        return s
    if t == "block":
        s = ""
        if c.get("some"):
            s += style.kw("some") + " "
        s += pquery(c["q"], style, depth)
        if c.get("not_empty"):
            s += " " + style.neg().strip() + ("" if style.neg().strip() == "!" else " ") + style.kw("empty")
        s += " {" + style.eol() + pbody(c.get("lets", []), c["body"], style, depth + 1) + style.indent(depth) + "}"
        return s
    if t == "when":
        s = style.kw("when") + " " + pcnf_inline(c["cond"], style, depth)
        s += " {" + style.eol() + pbody(c.get("lets", []), c["body"], style, depth + 1) + style.indent(depth) + "}"
        return s
    if t == "type":
        s = c["type"] + " "
        if c.get("cond"):
            s += style.kw("when") + " " + pcnf_inline(c["cond"], style, depth) + " "
        s += "{" + style.eol() + pbody(c.get("lets", []), c["body"], style, depth + 1) + style.indent(depth) + "}"
        return s
    if t == "raw":
        return c["text"]
    raise ValueError(c)


def needs_eol(c):
    return c["t"] == "ref" and not c.get("msg")


def pline(line, style, depth):
    parts = []
    for i, alt in enumerate(line):
        parts.append(pclause(alt, style, depth))
    s = ""
    for i, p in enumerate(parts):
        if i:
            s += style.orj()
        s += p
    return s


def pcnf_inline(cnf, style=CANON, depth=0):
    """conditions / filters: lines separated by newline-free whitespace where possible;
    a named reference must be followed by a newline, `or` or `{`"""
    out = []
    for li, line in enumerate(cnf):
        s = pline(line, style, depth)
        out.append(s)
        if li + 1 < len(cnf):
            out.append(style.eol() + style.indent(depth + 1) if needs_eol(line[-1]) else " ")
    return "".join(out)


def plet(l, style=CANON, depth=0):
    return "%s %s %s %s" % ("let", l[0], style.assign(), prhs(l[1], style, depth))


def pbody(lets, cnf, style=CANON, depth=1):
    out = []
    for l in lets:
        out.append(style.indent(depth) + plet(l, style, depth) + style.eol())
    for line in cnf:
        out.append(style.indent(depth) + pline(line, style, depth) + style.eol())
    return "".join(out)


def prule(r, style=CANON):
    s = "rule " + r["name"]
    if r.get("params"):
        s += "(" + ", ".join(r["params"]) + ")"
    if r.get("when"):
        s += " " + style.kw("when") + " " + pcnf_inline(r["when"], style, 0)
    s += " {" + style.eol() + pbody(r.get("lets", []), r["body"], style, 1) + "}" + style.eol()
    return s


def pfile(f, style=CANON):
    out = []
    for l in f.get("lets", []):
        out.append(plet(l, style, 0) + style.eol())
    for line in f.get("default", []) or []:
        out.append(pline(line, style, 0) + style.eol())
    for r in f.get("rules", []):
        out.append(prule(r, style))
    return "".join(out)


def clause(q, op, rhs=None, neg=False, opneg=False, some=False, msg=None):
    return {"t": "clause", "neg": neg, "some": some, "q": q, "op": op, "opneg": opneg, "rhs": rhs, "msg": msg}


def kq(*keys):
    return [["key", k] for k in keys]


def rule(name, body, when=None, lets=None, params=None):
    return {"name": name, "params": params, "when": when, "lets": lets or [], "body": body}
