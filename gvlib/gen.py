"""Shared generators: documents, Guard literals, rule ASTs and their printer.

AST (plain dicts / tuples, JSON-serialisable so that replay files are
self-contained):

  query   = [part, ...]  part = ["key",k] | ["all"] | ["allidx"] | ["idx",n] | ["dotidx",n]
                                | ["filter", cnf] | ["var",name] | ["this"] | ["keyidx",k]
  rhs     = ["lit", value] | ["var", name] | ["query", query] | ["fn", name, [rhs..]]
  value   = python json value | {"$re": str} | {"$range": [lo, hi, "[", ")"]}
  clause  = {"t":"clause","neg":bool,"some":bool,"q":query,"op":op,"opneg":bool,"rhs":rhs|None,"msg":str|None}
  ref     = {"t":"ref","neg":bool,"name":str,"msg":None}
  block   = {"t":"block","some":bool,"q":query,"lets":[let..],"body":cnf,"not_empty":bool}
  when    = {"t":"when","cond":cnf,"lets":[..],"body":cnf}
  typeb   = {"t":"type","type":str,"cond":cnf|None,"lets":[..],"body":cnf}
  call    = {"t":"call","neg":bool,"name":str,"args":[rhs..]}
  cnf     = [[alt, ...], ...]          (lines of or-joined alternatives)
  let     = [name, rhs]
  rule    = {"name":str,"params":None|[names],"when":cnf|None,"lets":[..],"body":cnf}
  file    = {"lets":[..],"rules":[rule..],"default":cnf}
"""
import json
import math
import re

UNARY = ["exists", "empty", "is_string", "is_list", "is_struct", "is_bool", "is_int", "is_float", "is_null"]
BINARY = ["==", "<", "<=", ">", ">=", "in"]

VARNAME = re.compile(r"^[A-Za-z][A-Za-z0-9_]*$")
KEYWORDS = {"when", "WHEN", "rule", "let", "some", "SOME", "not", "NOT", "this", "THIS", "keys", "KEYS",
            "or", "OR", "in", "IN", "exists", "EXISTS", "empty", "EMPTY", "true", "false", "True", "False",
            "null", "NULL"}

# ------------------------------------------------------------------ documents

KEYS = ["a", "b", "c", "k", "n", "Type", "Properties", "Resources", "Tags", "Key", "Value"]
SCALARS = [0, 1, 2, 5, 10, -1, 1.5, 2.0, "", "a", "b", "ab", "x/y", "1", "true",
           "AWS::S3::Bucket", "AWS::EC2::Volume", True, False, None]
TYPES = ["AWS::S3::Bucket", "AWS::EC2::Volume", "AWS::IAM::Role"]


def gen_value(rng, depth, scalars=SCALARS, keys=KEYS, maxlen=3):
    r = rng.random()
    if depth <= 0 or r < 0.45:
        return rng.choice(scalars)
    if r < 0.72:
        return [gen_value(rng, depth - 1, scalars, keys, maxlen) for _ in range(rng.randint(0, maxlen))]
    n = rng.randint(0, maxlen)
    ks = rng.sample(keys, min(n, len(keys)))
    return {k: gen_value(rng, depth - 1, scalars, keys, maxlen) for k in ks}


def gen_generic_doc(rng, depth=4, scalars=SCALARS, keys=KEYS):
    n = rng.randint(1, 4)
    ks = rng.sample(keys, n)
    return {k: gen_value(rng, depth - 1, scalars, keys) for k in ks}


def gen_cfn_doc(rng, scalars=SCALARS, keys=KEYS, nres=None):
    nres = rng.randint(0, 4) if nres is None else nres
    res = {}
    for i in range(nres):
        r = {}
        if rng.random() < 0.95:
            r["Type"] = rng.choice(TYPES)
        if rng.random() < 0.85:
            r["Properties"] = {k: gen_value(rng, 2, scalars, keys) for k in rng.sample(keys[:6], rng.randint(0, 3))}
        res["r%d" % i] = r
    doc = {"Resources": res}
    if rng.random() < 0.3:
        doc["a"] = gen_value(rng, 2, scalars, keys)
    if rng.random() < 0.15:
        del doc["Resources"]
    return doc


def gen_tf_doc(rng, scalars=SCALARS, keys=KEYS, nres=None, wellformed=None):
    """Terraform-plan-shaped document: the console reporter of `validate` switches to its Terraform view whenever the
    root has `resource_changes`. wellformed=False lets the shape drift (map instead of list, address missing / not a string /
    without a dot, no change.after) - still ordinary JSON the tool must cope with."""
    nres = rng.randint(1, 4) if nres is None else nres
    wellformed = (rng.random() < 0.7) if wellformed is None else wellformed
    changes = []
    for i in range(nres):
        after = {k: gen_value(rng, 2, scalars, keys) for k in rng.sample(keys[:6], rng.randint(1, 3))}
        rc = {"address": "aws_s3_bucket.b%d" % i, "type": "aws_s3_bucket", "name": "b%d" % i,
              "change": {"actions": ["create"], "before": None, "after": after}}
        if not wellformed:
            r = rng.random()
            if r < 0.15:
                del rc["address"]
            elif r < 0.3:
                rc["address"] = rng.choice([5, None, ["a.b"], {"x": "a.b"}])
            elif r < 0.45:
                rc["address"] = rng.choice(["nodot", "", ".", "é.ü"])
            elif r < 0.55:
                del rc["change"]["after"]
            elif r < 0.65:
                rc["change"] = rng.choice([None, "x", []])
        changes.append(rc)
    doc = {"format_version": "1.1", "terraform_version": "1.5.0", "resource_changes": changes}
    if not wellformed and rng.random() < 0.3:
        doc["resource_changes"] = {("k%d" % i): c for i, c in enumerate(changes)}
    if rng.random() < 0.3:
        doc["a"] = gen_value(rng, 2, scalars, keys)
    return doc


def gen_doc(rng, **kw):
    if rng.random() < 0.5:
        return gen_generic_doc(rng, **kw)
    return gen_cfn_doc(rng, **{k: v for k, v in kw.items() if k in ("scalars", "keys")})


def walk(v, path=()):
    """yield (path tuple, value) for every node"""
    yield path, v
    if isinstance(v, dict):
        for k, x in v.items():
            yield from walk(x, path + (k,))
    elif isinstance(v, list):
        for i, x in enumerate(v):
            yield from walk(x, path + (i,))


def jdump(v):
    return json.dumps(v, ensure_ascii=False)


# ------------------------------------------------------------------ Guard literals

def gstr(s, style=None):
    q = '"'
    if style is not None:
        q = style.quote(s)
    if not getattr(style, "escape_quotes", False):
        # canonical spelling: pick the quote character the string does not contain (no escapes needed)
        if q == '"' and '"' in s and "'" not in s:
            q = "'"
        elif q == "'" and "'" in s and '"' not in s:
            q = '"'
    return q + s.replace(q, "\\" + q) + q


def gfloat(f):
    r = repr(float(f))
    if "e" in r:
        m, e = r.split("e")
        if e[0] not in "+-":
            e = "+" + e
        r = m + "e" + e
    return r


def glit(v, style=None):
    if isinstance(v, dict):
        if "$re" in v and len(v) == 1:
            return "/" + v["$re"].replace("/", "\\/") + "/"
        if "$range" in v and len(v) == 1:
            lo, hi, o, c = v["$range"]
            return "r%s%s,%s%s" % (o, glit(lo), glit(hi), c)
        if not v:
            return "{}"
        sep = style.listsep() if style else ", "
        return "{ " + sep.join("%s: %s" % (gstr(k, style), glit(x, style)) for k, x in v.items()) + " }"
    if isinstance(v, list):
        if style:
            style.push("list")
        sep = style.listsep() if style else ", "
        r = "[" + sep.join(glit(x, style) for x in v) + "]"
        if style:
            style.pop()
        return r
    if v is None:
        return style.kw("null") if style else "null"
    if v is True:
        return "true"
    if v is False:
        return "false"
    if isinstance(v, int):
        return str(v)
    if isinstance(v, float):
        return gfloat(v)
    if isinstance(v, str):
        return gstr(v, style)
    raise TypeError(v)


def lit_spellable(v):
    """can the DSL spell this value as a literal?"""
    if isinstance(v, dict):
        if "$re" in v or "$range" in v:
            return True
        return all(lit_spellable(x) for x in v.values()) and all("\\" not in k for k in v)
    if isinstance(v, list):
        return all(lit_spellable(x) for x in v)
    if isinstance(v, bool) or v is None:
        return True
    if isinstance(v, int):
        return -(2 ** 63) < v < 2 ** 63
    if isinstance(v, float):
        return math.isfinite(v) and (v > 0 or (v == 0 and math.copysign(1, v) > 0))
    if isinstance(v, str):
        return "\\" not in v and not (('"' in v) and ("'" in v))
    return False


# ------------------------------------------------------------------ printer

class Style:
    """Canonical spelling. C14 subclasses this to vary one token class at a time."""

    def kw(self, word):      # keywords with documented case variants
        return word

    def neg(self):           # prefix / operator negation spelling
        return "not "

    def opnot(self):         # operator-level negation prefix (`not in`, `!exists`, ...)
        return "not "

    def orj(self):
        return " or "

    def assign(self):
        return "="

    def quote(self, s):
        return '"'

    def idx(self, n, first=False):
        return "[%d]" % n

    def listsep(self):
        return ", "

    def indent(self, depth):
        return "    " * depth

    def eol(self):
        return "\n"

    def this_prefix(self):
        return False

    def lbr(self):           # filter brackets
        return "[ "

    def sp(self):            # the blank between the tokens of one clause
        return " "

    def rbr(self):
        return " ]"

    def push(self, ctx):
        pass

    def pop(self):
        pass


CANON = Style()


def gkey(k, style=CANON):
    if VARNAME.match(k) and k not in KEYWORDS:
        return k
    return gstr(k, style)


def pquery(q, style=CANON, depth=0, lhs=False):
    out = []
    for i, p in enumerate(q):
        t = p[0]
        if t == "key":
            s = gkey(p[1], style)
            if i == 0 and not lhs and not (VARNAME.match(p[1]) and p[1] not in KEYWORDS):
                # a query (right-hand side, let value, argument) that starts with a key that needs quotes is always written with `this.`:
                # a bare quoted string is a string literal there; on the left of a clause / before a block it is a query
                out.append("this." + s)
            elif i == 0 and style.this_prefix():
                out.append(style.kw("this") + "." + s)
            else:
                out.append(s if i == 0 else "." + s)
        elif t == "keyidx":
            out.append("[%s]" % gstr(p[1], style))
        elif t == "var":
            out.append("%" + p[1])
        elif t == "varkey":
            out.append(".%" + p[1])      # key interpolation: the key name(s) come from a variable
        elif t == "this":
            out.append(style.kw("this"))
        elif t == "all":
            out.append(".*")
        elif t == "allidx":
            out.append("[*]")
        elif t == "idx":
            out.append(style.idx(p[1]))
        elif t == "dotidx":
            out.append(".%d" % p[1])
        elif t == "filter":
            style.push("filter")
            out.append(style.lbr() + pcnf_inline(p[1], style, depth) + style.rbr())
            style.pop()
        elif t == "keysfilter":
            style.push("filter")
            out.append(style.lbr() + style.kw("keys") + " " + (p[1] if p[1] != "in" else style.kw("in")) + " " + prhs(p[2], style, depth) + style.rbr())
            style.pop()
        elif t == "raw":
            out.append(p[1])
        else:
            raise ValueError(p)
    return "".join(out)


def prhs(r, style=CANON, depth=0):
    t = r[0]
    if t == "lit":
        return glit(r[1], style)
    if t == "var":
        return "%" + r[1]
    if t == "query":
        return pquery(r[1], style, depth)
    if t == "somequery":
        return style.kw("some") + " " + pquery(r[1], style, depth)
    if t == "fn":
        return "%s(%s)" % (r[1], ", ".join(prhs(a, style, depth) for a in r[2]))
    if t == "raw":
        return r[1]
    raise ValueError(r)


def popr(op, opneg, style):
    base = op
    if op in ("in", "exists", "empty") or op.startswith("is_"):
        base = style.kw(op)
    if not opneg:
        return base
    if op == "==":
        return "!="
    if op in ("<", "<=", ">", ">="):
        raise ValueError("no operator-level negation for " + op)
    return style.opnot() + base


def pclause(c, style=CANON, depth=0):
    t = c["t"]
    if t == "clause":
        s = ""
        if c.get("neg"):
            s += style.neg()
        if c.get("some"):
            s += style.kw("some") + style.sp()
        s += pquery(c["q"], style, depth, lhs=True)
        s += style.sp() + popr(c["op"], c.get("opneg", False), style)
        if c.get("rhs") is not None:
            s += style.sp() + prhs(c["rhs"], style, depth)
        if c.get("msg"):
            s += style.sp() + "<<" + c["msg"] + ">>"
        return s
    if t == "ref":
        s = (style.neg() if c.get("neg") else "") + c["name"]
        if c.get("msg"):
            s += " <<" + c["msg"] + ">>"
        return s
    if t == "call":
        s = (style.neg() if c.get("neg") else "") + "%s(%s)" % (c["name"], ", ".join(prhs(a, style, depth) for a in c["args"]))
        if c.get("msg"):
            s += " <<" + c["msg"] + ">>"
        return s
    if t == "block":
        s = ""
        if c.get("some"):
            s += style.kw("some") + " "
        s += pquery(c["q"], style, depth, lhs=True)
        if c.get("not_empty"):
            s += " " + style.opnot() + style.kw("empty")
        style.push("block")
        s += " {" + style.eol() + pbody(c.get("lets", []), c["body"], style, depth + 1) + style.indent(depth) + "}"
        style.pop()
        return s
    if t == "when":
        style.push("when-cond")
        s = style.kw("when") + style.sp() + pcnf_inline(c["cond"], style, depth)
        style.pop()
        style.push("when-body")
        s += " {" + style.eol() + pbody(c.get("lets", []), c["body"], style, depth + 1) + style.indent(depth) + "}"
        style.pop()
        return s
    if t == "type":
        s = c["type"] + " "
        if c.get("cond"):
            style.push("when-cond")
            s += style.kw("when") + " " + pcnf_inline(c["cond"], style, depth) + " "
            style.pop()
        style.push("type")
        s += "{" + style.eol() + pbody(c.get("lets", []), c["body"], style, depth + 1) + style.indent(depth) + "}"
        style.pop()
        return s
    if t == "raw":
        return c["text"]
    raise ValueError(c)


def needs_eol(c):
    return c["t"] == "ref" and not c.get("msg")


def pline(line, style, depth):
    parts = []
    for i, alt in enumerate(line):
        parts.append(pclause(alt, style, depth))
    s = ""
    for i, p in enumerate(parts):
        if i:
            s += style.orj()
        s += p
    return s


def pcnf_inline(cnf, style=CANON, depth=0):
    """conditions / filters: lines separated by newline-free whitespace where possible;
    a named reference must be followed by a newline, `or` or `{`"""
    out = []
    for li, line in enumerate(cnf):
        s = pline(line, style, depth)
        out.append(s)
        if li + 1 < len(cnf):
            out.append(style.eol() + style.indent(depth + 1) if needs_eol(line[-1]) else " ")
    return "".join(out)


def plet(l, style=CANON, depth=0):
    return "%s %s %s %s" % ("let", l[0], style.assign(), prhs(l[1], style, depth))


def pbody(lets, cnf, style=CANON, depth=1):
    out = []
    for l in lets:
        out.append(style.indent(depth) + plet(l, style, depth) + style.eol())
    for line in cnf:
        out.append(style.indent(depth) + pline(line, style, depth) + style.eol())
    return "".join(out)


def prule(r, style=CANON):
    s = "rule " + r["name"]
    if r.get("params"):
        s += "(" + ", ".join(r["params"]) + ")"
    if r.get("when"):
        style.push("rule-when")
        s += " " + style.kw("when") + " " + pcnf_inline(r["when"], style, 0)
        style.pop()
    style.push("rule-body")
    s += " {" + style.eol() + pbody(r.get("lets", []), r["body"], style, 1) + "}" + style.eol()
    style.pop()
    return s


def pfile(f, style=CANON):
    out = []
    style.push("file")
    for l in f.get("lets", []):
        out.append(plet(l, style, 0) + style.eol())
    for line in f.get("default", []) or []:
        out.append(pline(line, style, 0) + style.eol())
    for r in f.get("rules", []):
        out.append(prule(r, style))
    style.pop()
    return "".join(out)


def clause(q, op, rhs=None, neg=False, opneg=False, some=False, msg=None):
    return {"t": "clause", "neg": neg, "some": some, "q": q, "op": op, "opneg": opneg, "rhs": rhs, "msg": msg}


def kq(*keys):
    return [["key", k] for k in keys]


def rule(name, body, when=None, lets=None, params=None):
    return {"name": name, "params": params, "when": when, "lets": lets or [], "body": body}


# ------------------------------------------------------------------ random rule programs

class Opts:
    """feature switches for the program generator"""

    def __init__(self, **kw):
        self.refs = True          # named rule references
        self.vars = True          # let variables (file/rule/block level)
        self.blocks = True        # query blocks
        self.whens = True         # when blocks / rule when guards
        self.filters = True       # [ filter ] query steps
        self.types = False        # type blocks AWS::X::Y { }
        self.calls = False        # parameterised rules
        self.fns = False          # function calls
        self.some = True
        self.prefix_not = True
        self.rhs_query = True     # query / variable right-hand sides
        self.msgs = False
        self.call_neg = True      # `not p(args)`
        self.interp = False       # key interpolation `a.%k` (needs file-level string variables, see gen_file)
        self.nested_calls = True  # a parameterised rule calling another one
        self.default = True       # file-level (default rule) clauses
        self.max_rules = 4
        self.max_lines = 4
        self.max_alts = 3
        self.max_depth = 2        # block nesting
        self.unary_w = 0.35
        self.keys = KEYS
        self.scalars = SCALARS
        self.lit_kinds = ("scalar", "list", "regex", "range", "map")
        self.in_w = 0.2
        self.this_filter = False  # `this[ filter ]` (panics on maps today: C08 territory)
        self.keys_filters = False # `[ keys == .. ]` map-key filters
        self.some_lets = False    # `let v = some <query>`
        for k, v in kw.items():
            if not hasattr(self, k):
                raise AttributeError(k)
            setattr(self, k, v)


def _pick_scalar_like(rng, v, o):
    """a literal 'near' value v: itself, or another scalar"""
    if not isinstance(v, (dict, list)) and lit_spellable(v) and rng.random() < 0.55:
        return v
    for _ in range(10):
        s = rng.choice(o.scalars)
        if lit_spellable(s):
            return s
    return 1


def gen_rhs_lit(rng, v, o, op):
    kinds = o.lit_kinds
    r = rng.random()
    if op == "in":
        if r < 0.75 or "range" not in kinds:
            n = rng.randint(1, 3)
            lst = [_pick_scalar_like(rng, v, o) for _ in range(n)]
            return ["lit", lst]
        if isinstance(v, float) and not isinstance(v, bool):
            return ["lit", {"$range": [0.5, 2.5, rng.choice("[("), rng.choice(")]")]}]
        return ["lit", {"$range": [rng.choice([0, 1]), rng.choice([2, 5, 10]), rng.choice("[("), rng.choice(")]")]}]
    if op in ("<", "<=", ">", ">="):
        return ["lit", _pick_scalar_like(rng, v, o)]
    # ==
    if r < 0.62 or kinds == ("scalar",):
        return ["lit", _pick_scalar_like(rng, v, o)]
    if r < 0.74 and "list" in kinds:
        if isinstance(v, list) and lit_spellable(v) and rng.random() < 0.6:
            return ["lit", v]
        return ["lit", [_pick_scalar_like(rng, v, o) for _ in range(rng.randint(0, 2))]]
    if r < 0.86 and "regex" in kinds:
        return ["lit", {"$re": rng.choice(["a", "^a", "b$", "^AWS::", "^$", "[0-9]", "x/y", "Bucket"])}]
    if r < 0.93 and "map" in kinds:
        if isinstance(v, dict) and lit_spellable(v) and rng.random() < 0.7:
            return ["lit", v]
        return ["lit", {"a": 1}]
    if "range" in kinds:
        return ["lit", {"$range": [0, rng.choice([1, 2, 10]), rng.choice("[("), rng.choice(")]")]}]
    return ["lit", _pick_scalar_like(rng, v, o)]


def gen_walk(rng, v, o, maxsteps=4, allow_filter=True, depth=0, first=True):
    """walk value v producing (query parts, a value reached or None).  Parts never start with a
    non-head part; caller prepends `this` when needed."""
    q = []
    steps = rng.randint(1, maxsteps)
    for s in range(steps):
        if isinstance(v, dict) and v:
            r = rng.random()
            if o.keys_filters and q and q[-1][0] == "key" and rng.random() < 0.12:
                ks = list(v)
                k0 = rng.choice(ks)
                form = rng.random()
                if form < 0.4:
                    q.append(["keysfilter", "==", ["lit", k0]])
                    v = v[k0]
                elif form < 0.55:
                    q.append(["keysfilter", "==", ["lit", {"$re": "^" + k0[:1]}]])
                    v = rng.choice([v[k] for k in ks if k.startswith(k0[:1])])
                elif form < 0.62:
                    # a list with members of other types next to the key name
                    q.append(["keysfilter", "in", ["lit", rng.sample([k0, 5, True, "nokey"], 4)[:rng.randint(2, 4)] + [k0]]])
                    v = v[k0]
                elif form < 0.7 and o.interp and getattr(o, "_strvars", None):
                    # the key name(s) to keep come from a variable
                    name, keys = rng.choice(o._strvars[:2])
                    q.append(["keysfilter", "==" if name == "kv0" else "in", ["var", name]])
                    hit = [k for k in keys if k in v]
                    if not hit:
                        return q, None
                    v = v[rng.choice(hit)]
                elif form < 0.8:
                    q.append(["keysfilter", "in", ["lit", [k0, "nokey"]]])
                    v = v[k0]
                else:
                    # inequality / negated membership on key names
                    op = rng.choice(["!=", "not in"])       # the grammar has no ordering operators on keys
                    import operator
                    fn = {"!=": operator.ne, "not in": operator.ne}[op]
                    q.append(["keysfilter", op, ["lit", [k0, "nokey"]] if op == "not in" else ["lit", k0]])
                    match = [k for k in ks if fn(k, k0)]
                    if not match:
                        return q, None
                    v = v[rng.choice(match)]
                continue
            if o.interp and q and q[-1][0] in ("key", "all", "allidx", "idx") and getattr(o, "_strvars", None) and rng.random() < 0.12:
                # key interpolation: the key comes from a file-level variable bound to a string (or a list of strings)
                name, keys = rng.choice(o._strvars)
                q.append(["varkey", name])
                hit = [k for k in keys if k in v]
                if not hit:
                    return q, None
                v = v[rng.choice(hit)]
                if rng.random() < 0.5:
                    return q, v
                continue
            if r < 0.72:
                k = rng.choice(list(v))
                q.append(["key", k])
                v = v[k]
            elif r < 0.88 or not (allow_filter and o.filters):
                q.append(["all"])
                v = rng.choice(list(v.values()))
            else:
                vals = list(v.values())
                tgt = rng.choice(vals)
                if not q and not o.this_filter:
                    q.append(["all"])
                    v = tgt
                    continue
                if q and q[-1][0] not in ("key", "all", "allidx") and not o.this_filter:
                    q.append(["all"])
                    v = tgt
                    continue
                q.append(["filter", gen_filter(rng, tgt, o, depth)])
                v = tgt
        elif isinstance(v, list) and v:
            r = rng.random()
            if r < 0.5:
                q.append(["allidx"])
                v = rng.choice(v)
            elif r < 0.7:
                i = rng.randrange(len(v) + (1 if rng.random() < 0.2 else 0))
                q.append(["idx", i] if rng.random() < 0.8 else ["dotidx", i])
                v = v[i] if i < len(v) else None
                if v is None and i >= 0:
                    return q, None
            elif r < 0.8 or not (allow_filter and o.filters) or not q or q[-1][0] not in ("key", "all", "allidx"):
                q.append(["all"])
                v = rng.choice(v)
            else:
                tgt = rng.choice(v)
                q.append(["filter", gen_filter(rng, tgt, o, depth)])
                v = tgt
        else:
            break
    # perturbation: make it (partly) unresolvable
    r = rng.random()
    if r < 0.12:
        q.append(["key", rng.choice(o.keys)])
        v = v.get(q[-1][1]) if isinstance(v, dict) else None
    elif r < 0.2 and q:
        ks = [i for i, p in enumerate(q) if p[0] == "key"]
        if ks:
            i = rng.choice(ks)
            q[i] = ["key", rng.choice(o.keys)]
            v = None
    return q, v


def gen_filter(rng, elem, o, depth):
    """CNF of 1-2 access clauses evaluated against a candidate element"""
    lines = []
    for _ in range(1 if rng.random() < 0.8 else 2):
        alts = []
        for _ in range(1 if rng.random() < 0.85 else 2):
            alts.append(gen_access_clause(rng, elem, o, depth + 1, in_filter=True))
        lines.append(alts)
    return lines


def head_fix(q, ctx_is_root):
    if not q:
        return [["this"]]
    if q[0][0] in ("key", "var", "this"):
        return q
    return [["this"]] + q


def gen_access_clause(rng, ctxv, o, depth, in_filter=False, vars_=()):
    qvars = [x for x in vars_ if not x[2]]
    use_var = o.vars and qvars and rng.random() < 0.3 and not in_filter
    if use_var:
        name, val, _ = rng.choice(qvars)
        if isinstance(val, (dict, list)) and val and rng.random() < 0.7:
            q, v = gen_walk(rng, val if not isinstance(val, list) else rng.choice(val), o, 2, allow_filter=False, depth=depth)
            q = [p for p in q]
            q = [["var", name]] + q
        else:
            q, v = [["var", name]], val
    else:
        q, v = gen_walk(rng, ctxv, o, 4 if not in_filter else 2, allow_filter=not in_filter and depth < 2, depth=depth)
        q = head_fix(q, depth == 0)
    some = o.some and rng.random() < 0.15
    neg = o.prefix_not and rng.random() < 0.12
    if rng.random() < o.unary_w:
        op = rng.choice(UNARY if rng.random() < 0.6 else ["exists", "empty"])
        if op == "empty" and isinstance(v, (int, float)) and rng.random() < 0.85:
            op = "exists"
        return clause(q, op, None, neg=neg, opneg=rng.random() < 0.3, some=some)
    op = "in" if rng.random() < o.in_w else rng.choice(["==", "==", "==", "<", "<=", ">", ">="])
    opneg = op in ("==", "in") and rng.random() < 0.25
    if o.rhs_query and rng.random() < 0.15:
        if vars_ and rng.random() < 0.5:
            name, val, _ = rng.choice(list(vars_))
            rhs = ["var", name]
        else:
            q2, _ = gen_walk(rng, ctxv, o, 3, allow_filter=False, depth=depth)
            rhs = ["query", head_fix(q2, depth == 0)]
    else:
        tv = v
        if isinstance(tv, list) and tv and rng.random() < 0.7:
            tv = rng.choice(tv)
        rhs = gen_rhs_lit(rng, tv, o, op)
    return clause(q, op, rhs, neg=neg, opneg=opneg, some=some, msg=("m%d" % rng.randint(0, 9)) if o.msgs and rng.random() < 0.3 else None)


def gen_alt(rng, ctxv, o, depth, env):
    """env: dict(rules=[names referable], vars=[(name,value)], prules=[(name, nparams)], in_rule_level=bool)"""
    r = rng.random()
    if o.refs and env.get("refs") and env.get("allow_ref", True) and r < 0.14:
        return {"t": "ref", "neg": rng.random() < 0.3, "name": rng.choice(env["refs"]), "msg": ("m%d" % rng.randint(0, 9)) if o.msgs and rng.random() < 0.3 else None}
    if o.calls and env.get("prules") and r < 0.2:
        name, nparams = rng.choice(env["prules"])
        args = []
        for _ in range(nparams):
            if rng.random() < 0.5:
                q2, _ = gen_walk(rng, ctxv, o, 3, allow_filter=False, depth=depth)
                args.append(["query", head_fix(q2, depth == 0)])
            else:
                args.append(["lit", _pick_scalar_like(rng, None, o)])
        return {"t": "call", "neg": o.call_neg and rng.random() < 0.25, "name": name, "args": args,
                "msg": ("m%d" % rng.randint(0, 9)) if o.msgs and rng.random() < 0.4 else None}
    if o.blocks and depth < o.max_depth and r < 0.3:
        q, v = gen_walk(rng, ctxv, o, 3, allow_filter=True, depth=depth)
        q = head_fix(q, depth == 0)
        inner = v if v is not None else {}
        if isinstance(inner, list) and inner and q[-1][0] not in ("allidx", "all", "filter"):
            # a block over a list value iterates the list itself; body sees the list
            pass
        lets, vars2 = gen_lets(rng, inner, o, depth + 1, "b%d" % depth, env)
        env2 = dict(env, allow_ref=False, vars=list(env.get("vars", [])) + vars2)
        return {"t": "block", "some": o.some and rng.random() < 0.12, "q": q, "lets": lets,
                "body": gen_cnf(rng, inner, o, depth + 1, env2, maxlines=2), "not_empty": rng.random() < 0.08}
    if o.whens and depth < o.max_depth and r < 0.4:
        cond = gen_cond(rng, ctxv, o, depth, env)
        lets, vars2 = gen_lets(rng, ctxv, o, depth + 1, "w%d" % depth, env)
        env2 = dict(env, vars=list(env.get("vars", [])) + vars2)
        if depth > 0:
            env2["allow_ref"] = False
        return {"t": "when", "cond": cond, "lets": lets, "body": gen_cnf(rng, ctxv, o, depth + 1, env2, maxlines=2)}
    if (o.types and depth == 0 and env.get("root_is_ctx", True) and r < 0.5 and isinstance(ctxv, dict)
            and isinstance(ctxv.get("Resources"), dict) and ctxv["Resources"]):
        rv = {}
        if isinstance(ctxv, dict) and isinstance(ctxv.get("Resources"), dict) and ctxv["Resources"]:
            rv = rng.choice(list(ctxv["Resources"].values()))
        lets, vars2 = gen_lets(rng, rv, o, depth + 1, "t%d" % depth, env)
        env2 = dict(env, allow_ref=False, vars=list(env.get("vars", [])) + vars2)
        return {"t": "type", "type": rng.choice(TYPES), "cond": gen_cond(rng, ctxv, o, depth, env) if rng.random() < 0.2 else None,
                "lets": lets, "body": gen_cnf(rng, rv, o, depth + 1, env2, maxlines=2)}
    return gen_access_clause(rng, ctxv, o, depth, vars_=env.get("vars", ()))


def gen_cond(rng, ctxv, o, depth, env):
    """when conditions: CNF of access clauses / refs (no blocks)"""
    lines = []
    for _ in range(1 if rng.random() < 0.75 else 2):
        alts = []
        for _ in range(1 if rng.random() < 0.8 else 2):
            if o.refs and env.get("refs") and env.get("allow_ref", True) and rng.random() < 0.25:
                alts.append({"t": "ref", "neg": rng.random() < 0.3, "name": rng.choice(env["refs"]), "msg": None})
            else:
                alts.append(gen_access_clause(rng, ctxv, o, depth, vars_=env.get("vars", ())))
        lines.append(alts)
    return lines


def gen_cnf(rng, ctxv, o, depth, env, maxlines=None):
    n = rng.randint(1, maxlines or o.max_lines)
    lines = []
    for _ in range(n):
        k = 1 if rng.random() < 0.7 else rng.randint(2, o.max_alts)
        lines.append([gen_alt(rng, ctxv, o, depth, env) for _ in range(k)])
    return lines


def gen_lets(rng, ctxv, o, depth, prefix, env):
    """returns (lets, [(name, model value or None)])"""
    if not o.vars or rng.random() < 0.55:
        return [], []
    lets, vs = [], []
    for i in range(rng.randint(1, 2)):
        name = "%sv%d" % (prefix, i)
        if rng.random() < 0.4:
            val = _pick_scalar_like(rng, None, o) if rng.random() < 0.7 else [_pick_scalar_like(rng, None, o) for _ in range(2)]
            lets.append([name, ["lit", val]])
            vs.append((name, val, True))
        else:
            q, v = gen_walk(rng, ctxv, o, 3, allow_filter=o.filters and rng.random() < 0.3, depth=depth)
            q = head_fix(q, depth == 0)
            if o.some_lets and rng.random() < 0.25:
                lets.append([name, ["somequery", q]])
            else:
                lets.append([name, ["query", q]])
            vs.append((name, v, False))
    return lets, vs


def gen_file(rng, doc, o=None):
    o = o or Opts()
    nrules = rng.randint(1, o.max_rules)
    names = ["r%d" % i for i in range(nrules)]
    order = list(range(nrules))
    rng.shuffle(order)          # rule i may reference rules later in `order` (acyclic)
    rank = {idx: pos for pos, idx in enumerate(order)}
    o._strvars = None
    flets, fvars = gen_lets(rng, doc, o, 0, "f", {})
    if o.interp:
        # file-level variables that name keys: a string literal, a list of strings, and (sometimes) a query that selects strings
        dkeys = sorted({k for p_, v_ in walk(doc) if isinstance(v_, dict) for k in v_ if isinstance(k, str) and VARNAME.match(k)}) or ["a"]
        k1 = rng.choice(dkeys)
        flets = list(flets) + [["kv0", ["lit", k1]]]
        strvars = [("kv0", [k1])]
        ks = rng.sample(dkeys, min(len(dkeys), rng.randint(1, 2))) + (["zz_nokey"] if rng.random() < 0.3 else [])
        flets.append(["kv1", ["lit", ks]])
        strvars.append(("kv1", ks))
        if rng.random() < 0.5:
            # keys taken from the document itself: whatever a random path selects (strings name keys, an unresolved entry stays unresolved,
            # any other value is an error by the documentation)
            o._strvars = None          # no interpolation inside the definition itself
            q2, v2 = gen_walk(rng, doc, o, 3, allow_filter=False)
            if q2 and q2[0][0] == "key":
                flets.append(["kv2", ["query", q2]])
                vals2 = v2 if isinstance(v2, list) else [v2]
                strvars.append(("kv2", [x for x in vals2 if isinstance(x, str)]))
        o._strvars = strvars
    prules = []
    rules = []
    if o.calls and rng.random() < 0.5:
        np_ = rng.randint(1, 2)
        params = ["p%d" % i for i in range(np_)]
        body = []
        for _ in range(rng.randint(1, 2)):
            p = rng.choice(params)
            op = rng.choice(["==", "exists", "in", "is_string", "!empty"])
            if op == "==":
                body.append([clause([["var", p]], "==", ["lit", _pick_scalar_like(rng, None, o)])])
            elif op == "in":
                body.append([clause([["var", p]], "in", ["lit", [_pick_scalar_like(rng, None, o) for _ in range(2)]])])
            elif op == "!empty":
                body.append([clause([["var", p]], "empty", None, opneg=True)])
            else:
                body.append([clause([["var", p]], op, None)])
        rules.append(rule("pr0", body, params=params))
        prules.append(("pr0", np_))
        if o.nested_calls and rng.random() < 0.5:
            # a second parameterised rule whose body calls the first one (nested call, with or without message / negation)
            inner_args = [(["query", [["var", "q0"]]] if rng.random() < 0.7 else ["lit", _pick_scalar_like(rng, None, o)]) for _ in range(np_)]
            call = {"t": "call", "neg": o.call_neg and rng.random() < 0.25, "name": "pr0", "args": inner_args,
                    "msg": ("m%d" % rng.randint(0, 9)) if o.msgs and rng.random() < 0.4 else None}
            body1 = [[call]]
            if rng.random() < 0.6:
                body1.insert(rng.randint(0, 1), [clause([["var", "q0"]], rng.choice(["exists", "is_string", "is_list"]), None)])
            rules.append(rule("pr1", body1, params=["q0"]))
            prules.append(("pr1", 1))
    for i in range(nrules):
        refs = [names[j] for j in range(nrules) if rank[j] > rank[i]]
        env = {"refs": refs, "vars": list(fvars), "prules": prules, "allow_ref": True}
        when = gen_cond(rng, doc, o, 0, env) if o.whens and rng.random() < 0.25 else None
        lets, vars2 = gen_lets(rng, doc, o, 0, "r%d" % i, env)
        env2 = dict(env, vars=list(fvars) + vars2)
        rules.append(rule(names[i], gen_cnf(rng, doc, o, 0, env2), when=when, lets=lets))
    default = []
    if o.default and rng.random() < 0.2:
        env = {"refs": [], "vars": list(fvars), "prules": prules, "allow_ref": False}
        import copy
        o2 = copy.copy(o)
        o2.whens = False
        o2.types = False
        default = gen_cnf(rng, doc, o2, 0, env, maxlines=2)
    return {"lets": flets, "rules": rules, "default": default}


# ------------------------------------------------------------------ AST traversal helpers

def iter_cnfs(f):
    """yield (kind, cnf list object) for every CNF container of a file (mutable references)"""
    def from_query(q):
        for p in q:
            if p[0] == "filter":
                yield ("filter", p[1])
                yield from from_cnf(p[1])

    def from_rhs(r):
        if r is None:
            return
        if r[0] in ("query", "somequery"):
            yield from from_query(r[1])
        elif r[0] == "fn":
            for a in r[2]:
                yield from from_rhs(a)

    def from_lets(lets):
        for l in lets or []:
            yield from from_rhs(l[1])

    def from_cnf(cnf):
        for line in cnf:
            for alt in line:
                t = alt["t"]
                if t == "clause":
                    yield from from_query(alt["q"])
                    yield from from_rhs(alt.get("rhs"))
                elif t == "block":
                    yield from from_query(alt["q"])
                    yield from from_lets(alt.get("lets"))
                    yield ("block-body", alt["body"])
                    yield from from_cnf(alt["body"])
                elif t == "when":
                    yield ("when-cond", alt["cond"])
                    yield from from_cnf(alt["cond"])
                    yield from from_lets(alt.get("lets"))
                    yield ("when-body", alt["body"])
                    yield from from_cnf(alt["body"])
                elif t == "type":
                    if alt.get("cond"):
                        yield ("type-cond", alt["cond"])
                        yield from from_cnf(alt["cond"])
                    yield from from_lets(alt.get("lets"))
                    yield ("type-body", alt["body"])
                    yield from from_cnf(alt["body"])
                elif t == "call":
                    for a in alt["args"]:
                        yield from from_rhs(a)

    yield from from_lets(f.get("lets"))
    if f.get("default"):
        yield ("default", f["default"])
        yield from from_cnf(f["default"])
    for r in f["rules"]:
        if r.get("when"):
            yield ("rule-when", r["when"])
            yield from from_cnf(r["when"])
        yield from from_lets(r.get("lets"))
        yield ("rule-body", r["body"])
        yield from from_cnf(r["body"])


def clone(x):
    return json.loads(json.dumps(x))
