"""Offline checker of the evaluation record tree (`run_checks(verbose=true)` /
`validate --print-json`): every composite node must be explained by its children.
A direct transcription of property C02; knows nothing about the evaluator's code."""
import re

from .obs import container_kind, node_status

TRANSPARENT = ("Filter",)


def conj(statuses):
    if "FAIL" in statuses:
        return "FAIL"
    if "PASS" in statuses:
        return "PASS"
    return "SKIP"


def disj_expected(statuses):
    if "PASS" in statuses:
        return "PASS"
    if "FAIL" in statuses:
        return "FAIL"
    return "SKIP"


def is_error_node(node):
    k, v = container_kind(node)
    msg = None
    if isinstance(v, dict):
        msg = v.get("message")
        if k == "TypeCheck":
            msg = v["block"].get("message")
    return bool(msg) and ("bailing" in msg or "failed due to error" in msg)


class TreeChecker:
    def __init__(self, source=None, k_hint=None):
        self.src_lines = source.split("\n") if source is not None else None
        self.k_hint = k_hint
        self.problems = []      # (signature, message)
        self.kinds = {}
        self.combos = set()
        self.rule_status = {}

    def problem(self, sig, msg, node):
        self.problems.append((sig, "%s at context %r" % (msg, node.get("context", "")[:120])))

    def lines_of(self, node, skip_first=0):
        out = []
        for c in node.get("children", [])[skip_first:]:
            k, _ = container_kind(c)
            if k in TRANSPARENT:
                continue
            out.append(c)
        return out

    def check(self, root):
        k, v = container_kind(root)
        if k != "FileCheck":
            self.problem("root-not-file", "root container is %s" % k, root)
            return
        # collect top-level rule statuses: first non-SKIP definition wins
        for c in root.get("children", []):
            ck, cv = container_kind(c)
            if ck == "RuleCheck":
                n = cv["name"]
                if n not in self.rule_status or self.rule_status[n] == "SKIP":
                    self.rule_status[n] = cv["status"]
        self.visit(root, None)

    def visit(self, node, parent_kind):
        k, v = container_kind(node)
        if k is None:
            self.problem("open-record", "record without container (never closed)", node)
            return
        self.kinds[k] = self.kinds.get(k, 0) + 1
        st = node_status(node)
        if st not in ("PASS", "FAIL", "SKIP"):
            self.problem("no-status", "node %s has no status" % k, node)
        for c in node.get("children", []):
            self.visit(c, k)
        if is_error_node(node):
            return
        getattr(self, "n_" + k, self.n_other)(node, v, st)

    def n_other(self, node, v, st):
        pass

    def _conj_check(self, node, st, lines, what):
        sts = [node_status(c) for c in lines]
        exp = conj(sts)
        self.combos.add((what, tuple(sorted(set(sts))), st))
        if exp != st:
            self.problem("conj:%s" % what, "%s status %s but lines are %s (expected %s)" % (what, st, sts, exp), node)

    def n_FileCheck(self, node, v, st):
        kids = node.get("children", [])
        for c in kids:
            if container_kind(c)[0] not in ("RuleCheck",) + TRANSPARENT:
                self.problem("file-child", "FileCheck child is %s" % container_kind(c)[0], node)
        self._conj_check(node, st, [c for c in kids if container_kind(c)[0] == "RuleCheck"], "file")

    def _guarded(self, node, st, cond_kind, what):
        kids = node.get("children", [])
        skip = 0
        if kids and container_kind(kids[0])[0] == cond_kind:
            skip = 1
            cst = node_status(kids[0])
            if cst != "PASS":
                rest = self.lines_of(node, 1)
                self.combos.add((what + "-guard", cst, st))
                if st != "SKIP":
                    self.problem("guard-not-pass:%s" % what, "%s status %s although its condition is %s" % (what, st, cst), node)
                if rest:
                    self.problem("guard-body-evaluated:%s" % what, "%s body evaluated (%d records) although condition is %s" % (what, len(rest), cst), node)
                return None
        return self.lines_of(node, skip)

    def n_RuleCheck(self, node, v, st):
        lines = self._guarded(node, st, "RuleCondition", "rule")
        if lines is not None:
            self._conj_check(node, st, lines, "rule")

    def n_WhenCheck(self, node, v, st):
        kids = node.get("children", [])
        if not kids or container_kind(kids[0])[0] != "WhenCondition":
            self.problem("when-no-condition", "WhenCheck without WhenCondition child", node)
            return
        lines = self._guarded(node, st, "WhenCondition", "when")
        if lines is not None:
            self._conj_check(node, st, lines, "when")

    def n_RuleCondition(self, node, v, st):
        self._conj_check(node, st, self.lines_of(node), "condition")

    n_WhenCondition = n_RuleCondition
    n_TypeCondition = n_RuleCondition

    def n_TypeBlock(self, node, v, st):
        self._conj_check(node, st, self.lines_of(node), "typeblock-body")

    def n_Filter(self, node, v, st):
        self._conj_check(node, st, self.lines_of(node), "filter")

    def n_TypeCheck(self, node, v, st):
        kids = node.get("children", [])
        skip = 0
        if kids and container_kind(kids[0])[0] == "TypeCondition":
            skip = 1
            cst = node_status(kids[0])
            if cst != "PASS":
                rest = self.lines_of(node, 1)
                self.combos.add(("type-guard", cst, st))
                if st != "SKIP":
                    self.problem("guard-not-pass:type", "TypeCheck %s although condition %s" % (st, cst), node)
                if rest:
                    self.problem("guard-body-evaluated:type", "type block body evaluated although condition %s" % cst, node)
                return
        blocks = self.lines_of(node, skip)
        for b in blocks:
            if container_kind(b)[0] != "TypeBlock":
                self.problem("type-child", "TypeCheck child is %s" % container_kind(b)[0], node)
        self._conj_check(node, st, blocks, "typecheck")

    def n_Disjunction(self, node, v, st):
        alts = self.lines_of(node)
        sts = [node_status(c) for c in alts]
        self.combos.add(("disjunction", tuple(sts), st))
        exp = disj_expected(sts)
        if exp != st:
            self.problem("disjunction", "Disjunction status %s but alternatives are %s" % (st, sts), node)
        if "PASS" in sts and sts.index("PASS") != len(sts) - 1:
            self.problem("disjunction-no-short-circuit", "alternatives evaluated after a PASS: %s" % sts, node)
        if len(alts) < 1:
            self.problem("disjunction-empty", "Disjunction without alternatives", node)

    FILTERISH = re.compile(r"\[\s*[^\d*\s\]'\"]")

    def _query_has_filter(self, node):
        """does the source text of the clause/block at this record's location contain a filter step?
        (filters on scalars are evaluated without a `Filter` wrapper record, so their clause records
        become direct children of the record of the clause that forced the query)"""
        if self.src_lines is None:
            return True
        m = re.search(r"line:(\d+), column:(\d+)\]", node.get("context", ""))
        if not m:
            return True
        try:
            text = "\n".join(self.src_lines[int(m.group(1)) - 1:])[int(m.group(2)) - 1:]
        except IndexError:
            return True
        head = text.split("{", 1)[0]
        return bool(self.FILTERISH.search(head)) or "%" in head

    def n_GuardClauseBlockCheck(self, node, v, st):
        # value checks of this clause; anything else is a record of the query resolution (transparent)
        vals = [c for c in self.lines_of(node)
                if container_kind(c)[0] == "ClauseValueCheck" and not c.get("context", "").startswith("Rule(")]
        sts = [node_status(c) for c in vals]
        some = bool(v.get("at_least_one_matches"))
        if not vals:
            # vacuous: no value was compared (empty selection -> SKIP; flattened empty list -> PASS/FAIL);
            # the property does not constrain a clause without value checks
            self.combos.add(("clause-vacuous", st))
            return
        if len(vals) == 1:
            exp = sts[0]
        elif some:
            exp = "PASS" if "PASS" in sts else "FAIL"
        else:
            exp = "FAIL" if "FAIL" in sts else "PASS"
        self.combos.add(("clause", some, tuple(sorted(set(sts))), st))
        if exp != st:
            self.problem("clause-aggregate:%s" % ("some" if some else "all"),
                         "clause status %s but value checks are %s (some=%s)" % (st, sts, some), node)

    def n_BlockGuardCheck(self, node, v, st):
        kids = self.lines_of(node)
        some = bool(v.get("at_least_one_matches"))
        lenient = self._query_has_filter(node)
        starts = range(0, len(kids) + 1) if lenient else [0]
        ok = False
        for p in starts:
            if self._block_explained(kids[p:], some, st):
                ok = True
                break
        sts = [node_status(c) for c in kids]
        self.combos.add(("block", some, tuple(sorted(set(sts))), st))
        if not ok:
            self.problem("block-aggregate:%s" % ("some" if some else "all"),
                         "block status %s not explained by its records %s" % (st, sts), node)

    def _block_explained(self, kids, some, st):
        sts = [node_status(c) for c in kids]
        if not kids:
            return st in ("SKIP", "FAIL")       # FAIL: `!empty` annotated block on an empty selection
        if not some:
            return conj(sts) == st
        missing = [c for c in kids if self._is_missing(c)]
        rest = [c for c in kids if not self._is_missing(c)]
        if not rest:
            return st == "FAIL"
        cands = [self.k_hint] if self.k_hint else [k for k in range(1, len(rest) + 1) if len(rest) % k == 0]
        for k in cands:
            if not k or len(rest) % k:
                continue
            per = [conj([node_status(c) for c in rest[i:i + k]]) for i in range(0, len(rest), k)]
            per += ["FAIL"] * len(missing)
            if disj_expected(per) == st:
                return True
        return False

    @staticmethod
    def _is_missing(c):
        k, v = container_kind(c)
        return k == "ClauseValueCheck" and isinstance(v, dict) and "MissingBlockValue" in v

    NEG = re.compile(r"^(not\s|NOT\s|!)")

    def n_ClauseValueCheck(self, node, v, st):
        ctx = node.get("context", "")
        m = re.match(r"^Rule\((\w+)@Location\[file:[^,]*, line:(\d+), column:(\d+)\]\)$", ctx)
        if not m:
            return
        name, line, col = m.group(1), int(m.group(2)), int(m.group(3))
        kids = node.get("children", [])
        ref_status = None
        for c in kids:
            ck, cv = container_kind(c)
            if ck == "RuleCheck" and cv["name"] == name and ref_status in (None, "SKIP"):
                ref_status = cv["status"]
        if ref_status is None:
            ref_status = self.rule_status.get(name)
        if ref_status is None or self.src_lines is None:
            return
        try:
            text = self.src_lines[line - 1][col - 1:]
        except IndexError:
            return
        neg = bool(self.NEG.match(text))
        if not text[len(self.NEG.match(text).group(0)) if neg else 0:].lstrip().startswith(name):
            return      # could not locate the reference in the source; abstain
        exp = "PASS" if (ref_status == "PASS") != neg else "FAIL"
        self.combos.add(("named-ref", neg, ref_status, st))
        if exp != st:
            self.problem("named-ref", "reference to %s (status %s, negated=%s) evaluated to %s" % (name, ref_status, neg, st), node)


def check_events(events):
    """online H1 invariants from the hook stream of ONE evaluation: record open/close discipline"""
    problems = []
    depth = 0
    opens = closes = 0
    maxd = 0
    extract = None
    for e in events:
        t = e.split("|")
        if t[0] == "O":
            if int(t[1]) != depth:
                problems.append(("rec-depth", "open at depth %s while monitor depth %d" % (t[1], depth)))
            depth += 1
            opens += 1
            maxd = max(maxd, depth)
        elif t[0] == "C":
            closes += 1
            if int(t[1]) != depth:
                problems.append(("rec-depth", "close at depth %s while monitor depth %d" % (t[1], depth)))
            if t[2] != "true":
                problems.append(("rec-context-mismatch", "end_record context differs from the open record"))
            depth -= 1
        elif t[0] == "X":
            extract = (int(t[1]), t[2] == "true")
        elif t[0] == "SR":
            depth = 0
    return problems, {"opens": opens, "closes": closes, "max_depth": maxd, "extract": extract, "final_depth": depth}
