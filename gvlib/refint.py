"""Reference interpreter: an independent reading of the DOCUMENTED semantics of the core language
(docs/CLAUSES.md, QUERY_AND_FILTERING.md, CONTEXTAWARE_EVALUATIONS_AND_LOOPS.md, README), written over the
generator's AST. Structure deliberately differs from the evaluator: a query yields a result SET first, each
result gets a truth value, then quantifier / CNF aggregation; no memoisation, no records.

Outcomes: PASS | FAIL | SKIP, the exception Err (documented evaluation error) and the exception Unspec
(the documentation does not decide this case - the oracle abstains, see DESIGN.md 5.3).
"""
import re


class Err(Exception):
    pass


class Unspec(Exception):
    pass


class R:            # resolved value
    __slots__ = ("v",)

    def __init__(self, v):
        self.v = v


class U:            # unresolved
    __slots__ = ()


UNRES = U()


def ty(v):
    if v is None:
        return "null"
    if isinstance(v, bool):
        return "bool"
    if isinstance(v, int):
        return "int"
    if isinstance(v, float):
        return "float"
    if isinstance(v, str):
        return "str"
    if isinstance(v, list):
        return "list"
    return "map"


def is_regex(v):
    return isinstance(v, dict) and len(v) == 1 and "$re" in v


def is_range(v):
    return isinstance(v, dict) and len(v) == 1 and "$range" in v


def conj(sts):
    if "FAIL" in sts:
        return "FAIL"
    if "PASS" in sts:
        return "PASS"
    return "SKIP"


class Scope:
    def __init__(self, ctx, lets, parent, interp):
        self.ctx = ctx              # the value `this` / relative queries are evaluated against
        self.lets = {l[0]: l[1] for l in (lets or [])}
        self.parent = parent
        self.interp = interp

    def lookup(self, name):
        s = self
        while s is not None:
            if name in s.lets:
                return s.lets[name], s
            s = s.parent
        raise Err("unknown variable " + name)

    def child(self, ctx, lets):
        return Scope(ctx, lets, self, self.interp)


class Interp:
    def __init__(self, file_ast, doc):
        self.f = file_ast
        self.doc = doc
        self.rule_cache = {}
        self.in_progress = set()
        self.vars_in_progress = set()

    # ------------------------------------------------------------------ queries
    def var_results(self, name, scope):
        rhs, owner = scope.lookup(name)
        t = rhs[0]
        key = (id(owner), name)
        if key in self.vars_in_progress:
            raise Err("variable defined in terms of itself")
        self.vars_in_progress.add(key)
        try:
            return self._var_results(rhs, owner, t)
        finally:
            self.vars_in_progress.discard(key)

    def _var_results(self, rhs, owner, t):
        if t == "lit":
            return [R(rhs[1])], True
        if t == "query":
            # a variable's query is evaluated against the context of the scope that defines it
            return self.query(rhs[1], Scope(owner.ctx, None, owner, self)), False
        if t == "somequery":
            return [r for r in self.query(rhs[1], Scope(owner.ctx, None, owner, self)) if isinstance(r, R)], False
        if t == "results":
            # a parameter of a parameterised rule: the values the argument selected at the call site
            return list(rhs[1]), False
        raise Unspec("function variable")

    def query(self, q, scope):
        head = q[0]
        rest = q[1:]
        if head[0] == "var":
            vals, _ = self.var_results(head[1], scope)
            if rest and rest[0][0] == "allidx":
                raise Unspec("[*] directly after a variable")        # known finding (C15): swallowed
            if rest and rest[0][0] == "filter":
                raise Unspec("filter directly after a variable")     # known finding (C15)
            if rest and rest[0][0] == "keysfilter":
                raise Unspec("keys filter directly after a variable")
            out = []
            for r in vals:
                if isinstance(r, U):
                    out.append(r)
                else:
                    out.extend(self.walk(rest, r.v, scope, None))
            return out
        if head[0] == "this":
            return self.walk(rest, scope.ctx, scope, "this")
        return self.walk(q, scope.ctx, scope, None)

    def walk(self, parts, v, scope, prev):
        if not parts:
            return [R(v)]
        p = parts[0]
        t = p[0]
        rest = parts[1:]
        if t == "key":
            k = p[1]
            if re.match(r"^-?\d+$", k):
                # a quoted digits-only key: the entry of that name in a map, the element at that index in a list
                if isinstance(v, dict):
                    if k in v:
                        return self.walk(rest, v[k], scope, "key")
                    return [UNRES]
                if isinstance(v, list):
                    if k.startswith("-") or len(k) > 9:
                        raise Unspec("negative / huge index")
                    if int(k) < len(v):
                        return self.walk(rest, v[int(k)], scope, "idx")
                    return [UNRES]
                return [UNRES]
            if isinstance(v, dict):
                if k in v:
                    return self.walk(rest, v[k], scope, "key")
                return [UNRES]
            return [UNRES]
        if t == "varkey":
            # documented key interpolation `a.%k`: the variable's values name the keys to follow; a non-string value is an error
            vals, _ = self.var_results(p[1], scope)
            if rest and rest[0][0] not in ("key", "allidx", "varkey"):
                raise Unspec("query part after an interpolated key")
            if not isinstance(v, dict):
                return [UNRES]
            out = []
            for r in vals:
                if isinstance(r, U):
                    out.append(UNRES)
                    continue
                keys = r.v if isinstance(r.v, list) else [r.v]
                for k in keys:
                    if not isinstance(k, str):
                        raise Err("interpolated key is not a string")
                    if k in v:
                        out.extend(self.walk(rest, v[k], scope, "key"))
                    else:
                        out.append(UNRES)
            return out
        if t == "this":
            return self.walk(rest, v, scope, "this")
        if t == "all":
            if isinstance(v, dict):
                if not v:
                    return [UNRES]
                out = []
                for x in v.values():
                    out.extend(self.walk(rest, x, scope, "all"))
                return out
            if isinstance(v, list):
                if not v:
                    return [UNRES]
                out = []
                for x in v:
                    out.extend(self.walk(rest, x, scope, "all"))
                return out
            return self.walk(rest, v, scope, "all")
        if t == "allidx":
            if isinstance(v, list):
                if not v:
                    return [UNRES]
                out = []
                for x in v:
                    out.extend(self.walk(rest, x, scope, "allidx"))
                return out
            return self.walk(rest, v, scope, "allidx")
        if t in ("idx", "dotidx"):
            n = p[1]
            if n < 0:
                raise Unspec("negative index")
            if isinstance(v, list):
                if n < len(v):
                    return self.walk(rest, v[n], scope, "idx")
                return [UNRES]
            return [UNRES]
        if t == "keysfilter":
            # documented map-key filter `[ keys == | != | in | not in <rhs> ]`: keeps the values of the keys that satisfy the comparison
            if not isinstance(v, dict):
                return [UNRES]
            if rest and rest[0][0] in ("filter", "keysfilter"):
                raise Unspec("filter after a keys filter")
            out = []
            for k in self.keys_select(p[1], p[2], list(v), scope):
                out.extend(self.walk(rest, v[k], scope, "key"))
            return out
        if t == "filter":
            cnf = p[1]
            if isinstance(v, list):
                out = []
                for x in v:
                    if self.cnf(cnf, scope.child(x, None), "filter") == "PASS":
                        out.extend(self.walk(rest, x, scope, "filter"))
                return out
            if isinstance(v, dict):
                if prev == "key":
                    out = []
                    for x in v.values():
                        if self.cnf(cnf, scope.child(x, None), "filter") == "PASS":
                            out.extend(self.walk(rest, x, scope, "filter"))
                    return out
                if prev in ("all", "allidx"):
                    if self.cnf(cnf, scope.child(v, None), "filter") == "PASS":
                        return self.walk(rest, v, scope, "filter")
                    return []
                raise Unspec("filter on a map after " + str(prev))
            raise Unspec("filter on a scalar")
        raise Unspec("query part " + t)

    def keys_select(self, op, rhs, keys, scope):
        neg = op in ("!=", "not in")
        base = "in" if op in ("in", "not in") else "=="
        if rhs[0] == "lit":
            vals, lit = [rhs[1]], True
        elif rhs[0] == "var":
            rv, lit = self.var_results(rhs[1], scope)
            if any(isinstance(r, U) for r in rv):
                raise Unspec("unresolved value on the right of a keys filter")
            vals = [r.v for r in rv]
        else:
            raise Unspec("right-hand side of a keys filter")
        if not vals:
            raise Unspec("empty right-hand side of a keys filter")

        def one(k, m):
            # key k against ONE scalar / regex member: True, False, or None for "not comparable" (another type)
            if isinstance(m, str):
                return k == m
            if is_regex(m):
                try:
                    return re.search(m["$re"], k) is not None
                except re.error:
                    raise Unspec("regex dialect")
            return None

        if len(vals) > 1:
            # several values (a query-bound variable): the key must equal one of them
            if neg:
                raise Unspec("negated keys filter against several values")
            if any(isinstance(x, (list, dict)) and not is_regex(x) for x in vals):
                raise Unspec("keys filter against collections")
            if base == "in" and any(isinstance(x, str) and k != x and k in x for k in keys for x in vals):
                raise Unspec("key is a proper substring of a value")      # the tool's `in` on two strings is containment (`==` is equality)
            return [k for k in keys if any(one(k, x) for x in vals)]
        x = vals[0]
        if isinstance(x, list):
            if base == "==":
                if len(x) == 1 and lit:
                    raise Unspec("single-element list literal")
                return []                         # a string never equals / differs-comparably from a list
            if any(isinstance(m, (list, dict)) and not is_regex(m) for m in x):
                raise Unspec("in against a list of collections")
            return [k for k in keys if any(one(k, m) for m in x) != neg]
        if isinstance(x, dict) and not is_regex(x):
            return []
        if base == "in":
            if isinstance(x, str):
                if any(k != x and k in x for k in keys):
                    raise Unspec("key is a proper substring of the value")
            elif not is_regex(x):
                return []
        out = []
        for k in keys:
            r = one(k, x)
            if r is not None and r != neg:
                out.append(k)
        return out

    # ------------------------------------------------------------------ clauses
    def unary(self, op, r):
        if op == "exists":
            return isinstance(r, R)
        if op == "empty":
            if isinstance(r, U):
                return True
            v = r.v
            if isinstance(v, (list, dict, str)) and not isinstance(v, bool):
                return len(v) == 0
            if isinstance(v, bool):
                raise Unspec("empty on bool")
            if v is None:
                raise Unspec("empty on null")
            raise Err("empty on a number")
        if isinstance(r, U):
            return False
        want = {"is_string": "str", "is_list": "list", "is_struct": "map", "is_bool": "bool", "is_int": "int", "is_float": "float", "is_null": "null"}[op]
        return ty(r.v) == want

    def scalar_cmp(self, a, b):
        """'eq' | 'lt' | 'gt' | 'nc' for two non-collection values / regex / range literal on the right"""
        if is_regex(b):
            if isinstance(a, str):
                try:
                    return "eq" if re.search(b["$re"], a) else "ne"
                except re.error:
                    raise Unspec("regex dialect")
            return "nc"
        if is_range(b):
            lo, hi, o, c = b["$range"]
            if ty(a) != ty(lo) or ty(a) not in ("int", "float"):
                return "nc"
            ok = (a >= lo if o == "[" else a > lo) and (a <= hi if c == "]" else a < hi)
            return "eq" if ok else "ne"
        ta, tb = ty(a), ty(b)
        if ta != tb:
            return "nc"
        if ta in ("int", "float", "str"):
            return "eq" if a == b else ("lt" if a < b else "gt")
        if ta in ("bool", "null"):
            return "eq" if a == b else "ne"
        return self.deep(a, b)

    def deep(self, a, b):
        ta, tb = ty(a), ty(b)
        if is_regex(b) or is_range(b):
            return self.scalar_cmp(a, b)
        if ta != tb:
            return "nc"
        if ta == "list":
            if len(a) != len(b):
                return "ne"
            res = "eq"
            for x, y in zip(a, b):
                r = self.deep(x, y)
                if r == "nc":
                    return "nc"
                if r != "eq":
                    return "ne"
            return res
        if ta == "map":
            if len(a) != len(b):
                return "ne"
            for k in a:
                if k not in b:
                    return "ne"
                r = self.deep(a[k], b[k])
                if r == "nc":
                    return "nc"
                if r != "eq":
                    return "ne"
            return "eq"
        r = self.scalar_cmp(a, b)
        return r if r in ("eq", "nc") else "ne"

    def binary_truths(self, op, neg, results, lit):
        """list of booleans, one per compared value (unresolved -> False under both polarities)"""
        out = []
        for r in results:
            if isinstance(r, U):
                out.append(False)
                continue
            v = r.v
            if op in ("<", "<=", ">", ">="):
                if isinstance(lit, (list, dict)) and not is_regex(lit) and not is_range(lit):
                    raise Unspec("ordering against a collection literal")
                vals = v if isinstance(v, list) else [v]
                if isinstance(v, list) and not v:
                    raise Unspec("vacuous comparison on an empty list")
                for x in vals:
                    if isinstance(x, (list, dict)) or is_regex(lit) or is_range(lit):
                        out.append(False)
                        continue
                    if x is None and lit is None:
                        # the documentation is silent on ordering nulls (the tool orders null == null, see the C13 finding)
                        raise Unspec("ordering of null against null")
                    c = self.scalar_cmp(x, lit)
                    if c == "nc" or ty(x) not in ("int", "float", "str"):
                        out.append(False)
                        continue
                    t = {"<": c == "lt", "<=": c in ("lt", "eq"), ">": c == "gt", ">=": c in ("gt", "eq")}[op]
                    out.append(t != neg)
                continue
            if op == "==":
                if isinstance(lit, list):
                    if isinstance(v, list):
                        c = self.deep(v, lit)
                    elif not isinstance(v, dict) and len(lit) == 1:
                        c = self.deep(v, lit[0])
                    else:
                        c = "nc"
                    out.append(False if c == "nc" else ((c == "eq") != neg))
                    continue
                if isinstance(lit, dict) and not is_regex(lit) and not is_range(lit):
                    # a list value is compared element by element (one level), like against a scalar literal
                    if isinstance(v, list) and not v:
                        raise Unspec("vacuous comparison on an empty list")
                    for x in (v if isinstance(v, list) else [v]):
                        c = self.deep(x, lit) if isinstance(x, dict) else "nc"
                        out.append(False if c == "nc" else ((c == "eq") != neg))
                    continue
                # scalar / regex / range literal: a list value is compared element by element (one level)
                if isinstance(v, list):
                    if not v:
                        raise Unspec("vacuous comparison on an empty list")
                    vals = v
                else:
                    vals = [v]
                for x in vals:
                    if isinstance(x, (list, dict)):
                        out.append(False)
                        continue
                    c = self.scalar_cmp(x, lit)
                    out.append(False if c == "nc" else ((c == "eq") != neg))
                continue
            if op == "in":
                if is_range(lit):
                    if isinstance(v, (list, dict)):
                        out.append(False)
                        continue
                    c = self.scalar_cmp(v, lit)
                    out.append(False if c == "nc" else ((c == "eq") != neg))
                    continue
                if not isinstance(lit, list):
                    raise Unspec("in against a non-list literal")
                if any(isinstance(m, list) for m in lit):
                    raise Unspec("in against a list of lists")
                if isinstance(v, list):
                    if not v:
                        raise Unspec("vacuous in on an empty list")
                    member = [any(self.deep(x, m) == "eq" for m in lit) for x in v]
                    out.append((not any(member)) if neg else all(member))
                    continue
                if isinstance(v, dict):
                    if any(isinstance(m, dict) and not is_regex(m) for m in lit):
                        raise Unspec("map in list of maps")
                    out.append(neg)         # a map is no member of a list of scalars
                    continue
                member = any(self.deep(v, m) == "eq" for m in lit)
                out.append(member != neg)
                continue
            raise Unspec("operator " + op)
        return out

    def clause(self, c, scope):
        q = c["q"]
        op = c["op"]
        neg = bool(c.get("neg")) != bool(c.get("opneg"))
        some = bool(c.get("some"))
        results = self.query(q, scope)
        ends_in_filter = q[-1][0] in ("filter", "keysfilter")
        bare_var = len(q) == 1 and q[0][0] == "var"
        if op in ("exists", "empty") or op.startswith("is_"):
            if op == "empty" and (ends_in_filter or bare_var):
                # emptiness of the RESULT SET
                if not results:
                    return "FAIL" if neg else "PASS"
                truths = []
                for r in results:
                    if isinstance(r, U):
                        truths.append(True)
                    elif r.v is None:
                        raise Unspec("null member in a result-set emptiness test")
                    else:
                        truths.append(False)
                truths = [t != neg for t in truths]
            else:
                if not results:
                    return "SKIP"
                truths = [self.unary(op, r) != neg for r in results]
        else:
            rhs = c["rhs"]
            if rhs[0] == "var":
                rv, is_lit = self.var_results(rhs[1], scope)
                if not is_lit:
                    # a query on the right: only its emptiness is decided here (an empty selection on either side makes the clause SKIP)
                    if not rv or not results:
                        return "SKIP"
                    raise Unspec("query-valued right-hand side")
                lit = rv[0].v
            elif rhs[0] == "lit":
                lit = rhs[1]
            elif rhs[0] == "query":
                if not self.query(rhs[1], scope) or not results:
                    return "SKIP"
                raise Unspec("query-valued right-hand side")
            else:
                raise Unspec("non-literal right-hand side")
            if not results:
                return "SKIP"
            if bare_var and scope.lookup(q[0][1])[0][0] == "lit":
                raise Unspec("literal on the left-hand side")
            truths = self.binary_truths(op, neg, results, lit)
            if not truths:
                raise Unspec("no value compared")
        if some:
            return "PASS" if any(truths) else "FAIL"
        return "FAIL" if not all(truths) else "PASS"

    def block(self, b, scope):
        results = self.query(b["q"], scope)
        if not results:
            return "FAIL" if b.get("not_empty") else "SKIP"
        sts = []
        for r in results:
            if isinstance(r, U):
                sts.append("FAIL")
            else:
                sts.append(self.cnf(b["body"], scope.child(r.v, b.get("lets")), "block"))
        if b.get("some"):
            if "PASS" in sts:
                return "PASS"
            if "FAIL" in sts:
                return "FAIL"
            return "SKIP"
        return conj(sts)

    def typeblock(self, t, scope):
        if t.get("cond"):
            if self.cnf(t["cond"], scope, "cond") != "PASS":
                return "SKIP"
        root = self.doc
        if not isinstance(root, dict) or not isinstance(root.get("Resources"), dict) or not root["Resources"]:
            raise Unspec("type block without resources")      # known finding (C14)
        sts = []
        for res in root["Resources"].values():
            tv = res.get("Type") if isinstance(res, dict) else None
            if isinstance(res, dict) and isinstance(tv, str) and tv == t["type"]:
                sts.append(self.cnf(t["body"], scope.child(res, t.get("lets")), "type"))
            elif isinstance(res, dict) and isinstance(tv, list):
                raise Unspec("list valued Type")
            elif not isinstance(res, dict):
                raise Unspec("filter on a scalar")
        return conj(sts) if sts else "SKIP"

    def alt(self, a, scope):
        t = a["t"]
        if t == "clause":
            return self.clause(a, scope)
        if t == "ref":
            st = self.rule_status(a["name"])
            ok = (st == "PASS") != bool(a.get("neg"))
            return "PASS" if ok else "FAIL"
        if t == "block":
            return self.block(a, scope)
        if t == "when":
            if self.cnf(a["cond"], scope, "cond") != "PASS":
                return "SKIP"
            return self.cnf(a["body"], scope.child(scope.ctx, a.get("lets")), "when")
        if t == "type":
            return self.typeblock(a, scope)
        if t == "call":
            return self.call(a, scope)
        raise Unspec("clause kind " + t)

    def call(self, a, scope):
        """documented reading of `name(args)`: the named rule's body evaluated with each parameter standing for what its
        argument selects at the call site; the call has the body's status, `not` inverts like for a named rule"""
        defs = [r for r in self.f["rules"] if r["name"] == a["name"] and r.get("params")]
        if not defs:
            raise Err("unknown parameterised rule " + a["name"])
        if len(defs) > 1:
            raise Unspec("several definitions of one parameterised rule")
        d = defs[0]
        if len(d["params"]) != len(a["args"]):
            raise Err("arity mismatch")
        if a["name"] in self.in_progress:
            raise Unspec("cyclic rules")
        lets = []
        for pname, arg in zip(d["params"], a["args"]):
            if arg[0] == "lit":
                lets.append([pname, ("results", [R(arg[1])])])
            elif arg[0] == "query":
                lets.append([pname, ("results", self.query(arg[1], scope))])
            else:
                raise Unspec("argument kind " + arg[0])
        if d.get("when"):
            raise Unspec("parameterised rule with a when guard")
        self.in_progress.add(a["name"])
        try:
            body_scope = scope.child(scope.ctx, lets)
            st = self.cnf(d["body"], body_scope.child(scope.ctx, d.get("lets")), "rule")
        finally:
            self.in_progress.discard(a["name"])
        if a.get("neg"):
            return "FAIL" if st == "PASS" else "PASS"
        return st

    def cnf(self, cnf, scope, where):
        sts = []
        for line in cnf:
            ls = []
            for a in line:
                s = self.alt(a, scope)
                ls.append(s)
                if s == "PASS":
                    break               # documented: an `or` line is satisfied by its first passing alternative
            if "PASS" in ls:
                sts.append("PASS")
            elif "FAIL" in ls:
                sts.append("FAIL")
            else:
                sts.append("SKIP")
        return conj(sts)

    # ------------------------------------------------------------------ rules / file
    def rule_status(self, name):
        if name in self.rule_cache:
            v = self.rule_cache[name]
            if isinstance(v, Exception):
                raise v
            return v
        defs = [r for r in self.f["rules"] if r["name"] == name and not r.get("params")]
        if not defs:
            raise Err("unknown rule " + name)
        if len(defs) > 1:
            raise Unspec("several definitions of one rule name")
        if name in self.in_progress:
            raise Unspec("cyclic rules")
        self.in_progress.add(name)
        try:
            st = self.eval_rule(defs[0])
        except (Err, Unspec) as e:
            self.rule_cache[name] = e
            raise
        finally:
            self.in_progress.discard(name)
        self.rule_cache[name] = st
        return st

    def eval_rule(self, r):
        root = Scope(self.doc, self.f.get("lets"), None, self)
        if r.get("when"):
            if self.cnf(r["when"], root, "cond") != "PASS":
                return "SKIP"
        return self.cnf(r["body"], root.child(self.doc, r.get("lets")), "rule")

    def run(self):
        """returns ({rule: status | 'ERROR' | 'UNSPEC'}, file status | 'ERROR' | 'UNSPEC') in file order"""
        out = {}
        order = []
        if self.f.get("default"):
            order.append(("default", {"name": "default", "when": None, "lets": [], "body": self.f["default"]}))
        for r in self.f["rules"]:
            if not r.get("params"):
                order.append((r["name"], r))
        for name, r in order:
            try:
                if name == "default":
                    out[name] = self.eval_rule(r)
                else:
                    out[name] = self.rule_status(name)
            except Err:
                out[name] = "ERROR"
            except Unspec as u:
                out[name] = "UNSPEC"
                self.last_unspec = str(u)
        vals = list(out.values())
        if "ERROR" in vals:
            first = vals.index("ERROR")
            fs = "UNSPEC" if "UNSPEC" in vals[:first] else "ERROR"
        elif "UNSPEC" in vals:
            fs = "UNSPEC"
        else:
            fs = conj(vals)
        return out, fs
